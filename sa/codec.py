"""E2 - codec-pair extractor: reader sequence of a parse method vs writer byte terms of __bytearray__.

The reader sequence is recovered from the interpreter's ordered event log (stores, local assignments, deletes, calls) on
each path of `parse` under a scenario, using the idioms the repository actually uses:
    x = p[:n]; del p[:n]      x = p[0]; del p[0]      MPI(p)   ECPoint(p)   sub.parse(p)   Klass(p)
    sub.parse(p[:n]); del p[:n]        whole-buffer alias  x = p        loops (summarised)
"""
import ast
import re

from .interp import Interp, Scenario, Sym, Const, Bytes, render, render_items, merge_consts, render_item, lin_norm, lin_add
from .loader import AnalysisError


class Problem(tuple):
    """(kind, message, line) - a plain 3-tuple for existing callers - that also carries the Read it is about (`.read`)."""
    def __new__(cls, kind, message, line, read=None):
        self = tuple.__new__(cls, (kind, message, line))
        self.read = read
        return self


class Read(object):
    """One element of a reader sequence."""
    def __init__(self, kind, target, width, text, line, via=None):
        self.kind = kind        # 'fixed' (width known text), 'delegate' (sub-parser consumes), 'alias' (whole buffer), 'peek'
        self.target = target    # attribute / local that receives the value (or None)
        self.width = width      # normalised width text ('1', '8', '(self.header.length - 1)') or None
        self.text = text        # value text
        self.line = line
        self.via = via          # delegate callee text
        self.post = None        # value text after local transformations (decode, int conversion...)
        self.locals = set()     # local names that hold (a transformation of) these octets
        self.also = []          # further attributes the same octets are stored into

    def __repr__(self):
        return '%s(%s<-%s w=%s)' % (self.kind, self.target, self.via or self.text, self.width)


_SLICE = re.compile(r'SLICE\((?P<buf>[A-Za-z_][A-Za-z0-9_]*);(?P<lo>[^;]*);(?P<hi>.*?)\)(?![^()]*\))')


def slice_of(text, buf, held=()):
    """If `text` contains a read of buf: return (lo, hi) for buf[lo:hi] or ('i', 'i+1') for buf[i]; None otherwise.
    `held`: texts of octets read (and consumed) earlier that reach this value through a local - an index text among them is the
    local's value, not a new read, when the value also takes a slice."""
    k = text.find('SLICE(%s;' % buf)
    idx = re.search(r'(?<![A-Za-z0-9_.])%s\[(-?\d+)\]' % re.escape(buf), text)
    if idx and k >= 0 and idx.group(0) in held:
        idx = None
    if idx and (k < 0 or idx.start() < k):
        i = int(idx.group(1))
        return (str(i) if i else '', str(i + 1))
    if k >= 0:
        # parse balanced
        j = k + len('SLICE(%s;' % buf)
        depth, parts, cur = 0, [], ''
        while j < len(text):
            ch = text[j]
            if ch in '([{':
                depth += 1
            elif ch in ')]}':
                if depth == 0:
                    parts.append(cur)
                    break
                depth -= 1
            if ch == ';' and depth == 0:
                parts.append(cur)
                cur = ''
            else:
                cur += ch
            j += 1
        if len(parts) == 2:
            return (parts[0], parts[1])
    return None


def mentions(text, buf):
    return re.search(r'(?<![A-Za-z0-9_.])%s(?![A-Za-z0-9_])' % re.escape(buf), text) is not None


DELEGATES = ('MPI', 'ECPoint', 'SignatureSP', 'UserAttribute', 'Packet')


def reader_sequence(state, buf='packet', cls=None, recv='self'):
    """Ordered list of Read elements and consumption records from one interpreter path.

    Returns (reads, problems) where problems are (kind, message, line) for consume-what-you-read / alias-then-consume.
    `cls` (ClassInfo) lets `self.x = packet` be recognised as a call of a consuming sdproperty setter rather than an alias
    (`recv` = name of the receiver parameter of the method)."""
    reads = []
    problems = []
    pending = []        # fixed reads not yet consumed: (Read, (lo, hi))
    aliased = None      # (target, line) once the buffer was stored without copy
    last_ctor = None    # Read of a consuming constructor call Klass(buf) whose result has not been bound yet

    def stale(what, line):
        """A consumer takes its octets from the front of the buffer while earlier reads have not been consumed: they overlap."""
        for r, rs in pending:
            problems.append(Problem('consume-what-you-read', 'read %s is not consumed before %s takes its octets from the buffer' % (r.text, what), line, r))
        del pending[:]

    def consuming_setter(target):
        if cls is None or not target.startswith(recv + '.') or '.' in target[len(recv) + 1:]:
            return None
        p = cls.find_prop(target[len(recv) + 1:])
        if p is None:
            return None
        for tn in ('bytearray', 'bytes'):
            if tn in p.setters:
                return p.setters[tn]
        return None

    callnodes = {}
    for c in getattr(state, 'calls', ()):      # adapters that carry only an event list have no call nodes
        callnodes.setdefault((c[0], tuple(c[1]), c[3]), c[4])
    for ev in _dedupe_pops(state.events, buf):
        kind = ev[0]
        ctor, last_ctor = last_ctor, None
        if kind in ('store', 'assign'):
            target, val, line = ev[1], ev[2], ev[3]
            if ctor is not None and ctor.via == 'pop' and ctor.text in val:
                # x = buf.pop(0): the octet read and consumed in one call gets its name
                ctor.kind, ctor.target, ctor.text = 'fixed', target, val
                continue
            if ctor is not None and (val == ctor.text or (kind == 'assign' and val == target)):
                # x = Klass(buf) / self.f = Klass(buf): the object the constructor built from the buffer gets its name
                ctor.target = target
                continue
            if kind == 'store' and target in ('SLICE(%s;;0)' % buf, 'SLICE(%s;0;0)' % buf):
                # buf[:0] = octets: put in front of the buffer (for a sub-parser that expects them), like buf.insert(0, x)
                mc = re.match(r'^C\(([0-9a-f]*)\)$', val)
                n = len(mc.group(1)) // 2 if mc else (1 if re.match(r'^BYTE\([^()]*\)$', val) else None)
                reads.append(Read('insert', None, '-%d' % n if n is not None else None, '%s[:0] = %s' % (buf, val), line))
                continue
            if not mentions(val, buf):
                # a local that holds an object built from the buffer earlier is stored into a field
                hold = [r for r in reads if r.kind == 'delegate' and r.target is not None and r.target == val and not r.target.startswith(recv + '.')]
                if hold and kind == 'store':
                    hold[-1].locals.add(hold[-1].target)
                    hold[-1].target = target
                continue
            if val == buf:
                if kind == 'store':
                    cs = consuming_setter(target)
                    if cs is not None:
                        stale('the setter of %s' % target, line)
                        reads.append(Read('delegate', target, None, val, line, via='setter:%s' % cs.qualname))
                    else:
                        aliased = (target, line)
                        reads.append(Read('alias', target, None, val, line))
                continue
            # the right-hand side does not touch the buffer itself: it transforms / stores a local that holds octets read earlier
            rhs_names = ev[4] if len(ev) > 4 else frozenset()
            if rhs_names and buf not in rhs_names:
                src = [r for r in reads if r.target in rhs_names or (r.locals & set(rhs_names))]
                if src:
                    exact = [r for r in src if r.target == val or val in r.locals]
                    r = (exact or src)[-1]
                    if kind == 'store':
                        if r.target is None or not r.target.startswith(recv + '.'):
                            r.locals.add(r.target)
                            r.target = target
                        else:
                            r.also.append(target)
                    else:
                        r.locals.add(target)
                    r.post = val
                continue
            m = re.search(r'\b([A-Za-z_][A-Za-z0-9_.]*)\(%s\)' % re.escape(buf), val)
            if m and m.group(1) in ('memoryview', 'len', 'bytes', 'bytearray'):
                continue      # a view / copy / measurement of the buffer consumes nothing
            if m and ctor is not None and val == ctor.text:
                ctor.target = target
                continue
            held = [r.text for r in reads if r.width is not None and rhs_names and (r.target in rhs_names or (r.locals & set(rhs_names)))
                    and not any(r is p for p, _ in pending)]
            if m and slice_of(val, buf, held) is None:
                stale(m.group(1), line)
                reads.append(Read('delegate', target, None, val, line, via=m.group(1)))
                if aliased:
                    problems.append(('alias-then-consume', '%s consumes from the buffer after %s was aliased to it' % (val, aliased[0]), line))
                continue
            sl = slice_of(val, buf, held)
            if sl is not None:
                # re-reading the same not-yet-consumed slice (peek) does not start a new field
                same = [r for r, rs in pending if rs == sl]
                if same and kind == 'assign':
                    continue
                if same and kind == 'store':
                    # the same not-yet-consumed octets go (also) into this attribute: one read, several targets
                    r = same[-1]
                    if r.target is None or not r.target.startswith(recv + '.'):
                        if r.target:
                            r.locals.add(r.target)
                        r.target = target
                    elif target != r.target:
                        r.also.append(target)
                    continue
                r = Read('fixed', target, None, val, line)
                pending.append((r, sl))
                reads.append(r)
            else:
                reads.append(Read('other', target, None, val, line))
        elif kind == 'del':
            text, line = ev[1], ev[2]
            if not mentions(text, buf):
                continue
            sl = slice_of(text, buf)
            if sl is None:
                if text == buf:
                    continue
                problems.append(('unmodelled-del', 'del %s' % text, line))
                continue
            if aliased:
                problems.append(('alias-then-consume', 'del %s removes octets from the buffer that %s still aliases' % (text, aliased[0]), line))
            if sl[0] not in ('', '0'):
                reads.append(Read('splice', None, '%s:%s' % sl, text, line))
                continue
            order = _tiling(pending, sl[1])
            if order and (len(pending) > 1 or order[0][1] != '0'):
                # reads at increasing offsets consumed by one del: the field order is the order of the offsets; consumed octets no read
                # covers are skipped (in front: a skip of their own; behind a read: that read is a skip-read)
                idx = sorted(reads.index(r) for r, _ in pending)
                for i, (r, lo, end) in zip(idx, order):
                    rs = [x[1] for x in pending if x[0] is r][0]
                    r.width = lin_add(end, lo, -1)
                    if lin_norm(rs[1]) != lin_norm(end) and r.kind == 'fixed':
                        r.kind = 'fixed-skip'
                    reads[i] = r
                if order[0][1] != '0':
                    reads.insert(idx[0], Read('skip', None, order[0][1], text, line))
                pending = []
                continue
            for r, rs in pending:
                if rs[0] not in ('', '0'):
                    problems.append(Problem('read-offset', 'read %s does not start at the front of the buffer' % r.text, r.line, r))
                elif rs[1] != sl[1]:
                    if _int(rs[1]) is not None and _int(sl[1]) is not None and _int(rs[1]) <= _int(sl[1]):
                        r.width = sl[1]
                        r.kind = 'fixed-skip' if r.kind == 'fixed' else r.kind
                    else:
                        problems.append(Problem('consume-what-you-read', 'read %s but consumed [:%s]' % (r.text, sl[1]), line, r))
                        r.width = sl[1]
                else:
                    r.width = sl[1]
            if not pending:
                reads.append(Read('skip', None, sl[1], text, line))
            pending = []
        elif kind == 'call':
            ft, args, kw, line = ev[1], ev[2], ev[3], ev[4]
            allargs = list(args) + list(kw.values())
            base = ft.split('.')[-1]
            if ft == buf + '.pop' and list(args) == ['0'] and not kw:
                # buf.pop(0): one octet read and consumed at once (a skip unless the next event stores the value)
                stale('%s.pop(0)' % buf, line)
                last_ctor = Read('skip', None, '1', '%s.pop(0)' % buf, line, via='pop')
                reads.append(last_ctor)
                if aliased:
                    problems.append(('alias-then-consume', '%s.pop(0) removes an octet from the buffer that %s still aliases' % (buf, aliased[0]), line))
            elif ft == buf + '.insert' and len(args) == 2 and args[0] == '0' and not kw:
                # buf.insert(0, x): one octet is put in front of the buffer (for a sub-parser that expects it)
                reads.append(Read('insert', None, '-1', '%s.insert(0, %s)' % (buf, args[1]), line))
            elif any(a == buf for a in allargs):
                if base in ('parse', '_experimental_parse') or ft.startswith('super:'):
                    stale(ft, line)
                    reads.append(Read('delegate', None, None, '%s(%s)' % (ft, ', '.join(args)), line, via=ft))
                    if aliased:
                        problems.append(('alias-then-consume', '%s consumes from the buffer after %s was aliased to it' % (ft, aliased[0]), line))
                elif base in ('insert',):
                    reads.append(Read('insert', None, '-1', ft, line))
                elif ft in DELEGATES and list(args) == [buf] and not kw:
                    # Klass(buf): a constructor that consumes its own octets from the buffer; the next event binds the result
                    stale('%s(%s)' % (ft, buf), line)
                    last_ctor = Read('delegate', None, None, '%s(%s)' % (ft, buf), line, via=ft)
                    reads.append(last_ctor)
                    if aliased:
                        problems.append(('alias-then-consume', '%s(%s) consumes from the buffer after %s was aliased to it' % (ft, buf, aliased[0]), line))
            else:
                for a in allargs:
                    sl = slice_of(a, buf) if (a.startswith('SLICE(%s;' % buf) and a.endswith(')')) else None
                    if sl is not None and (base == 'parse' or base in DELEGATES):
                        node = callnodes.get((ft, tuple(args), line))
                        argn = None
                        if node is not None:
                            pos = list(node.args) + [k.value for k in node.keywords]
                            argn = pos[allargs.index(a)] if allargs.index(a) < len(pos) else None
                        if isinstance(argn, ast.Name):
                            # a local is handed over: the octets it holds were read (and possibly consumed) earlier - no new read
                            held = [r for r in reads if r.text == a and (r.target == argn.id or argn.id in r.locals)]
                            if held:
                                if held[-1].kind == 'fixed':
                                    held[-1].kind = 'fixed-delegate'
                                held[-1].via = ft
                                continue
                        same = [r for r, rs in pending if rs == sl]
                        if same:
                            # the slice was taken into a local first and is handed to the sub-parser now: one field, not two
                            same[-1].kind, same[-1].via = 'fixed-delegate', ft
                            continue
                        r = Read('fixed-delegate', None, None, '%s(%s)' % (ft, a), line, via=ft)
                        pending.append((r, sl))
                        reads.append(r)
    for r, rs in pending:
        problems.append(Problem('consume-what-you-read', 'read %s is never consumed' % r.text, r.line, r))
    return reads, problems


def _dedupe_pops(events, buf):
    """The interpreter may evaluate an expression more than once (deciding a test, rendering it): a run of buf.pop(0) call events of
    one source line stands for as many pops as the value stored next mentions (one when nothing is stored)."""
    out, i, pop = [], 0, buf + '.pop'
    while i < len(events):
        e = events[i]
        if e[0] == 'call' and e[1] == pop and list(e[2]) == ['0']:
            j = i
            while j < len(events) and events[j][0] == 'call' and events[j][1] == pop and events[j][4] == e[4]:
                j += 1
            nxt = events[j] if j < len(events) else None
            keep = 1
            if nxt is not None and nxt[0] in ('store', 'assign') and nxt[3] == e[4]:
                keep = max(1, nxt[2].count('%s.pop(0)' % buf))
            out.extend(events[i:i + min(keep, j - i)])
            i = j
            continue
        out.append(e)
        i += 1
    return out


def _const_diff(a, b):
    """a - b when that is an integer constant (both integer-linear in the same symbols), else None."""
    from .interp import lin_parse
    terms, c = lin_parse(lin_add(a or '0', b or '0', -1))
    return c if not terms else None


def _tiling(pending, hi):
    """How the pending reads [(Read, (lo, hi))] are covered by one `del buf[:hi]`: [(Read, lo, end of the octets consumed with it)]
    in stream order, or None when they overlap, leave a symbolic hole or reach beyond hi.  Offsets are integer-linear texts (8,
    8 + n, 8 + n + v: lengths read earlier are symbols); the next read is the one whose offset equals the current position, or lies a
    constant number of octets behind it - those octets are consumed but not read and count as skipped with the read before them (as
    in `x = buf[:1]; del buf[:4]`)."""
    if hi == '' or not pending:
        return None
    left = list(pending)
    cur, out = '0', []
    while left:
        best = None
        for p in left:
            if p[1][1] == '':
                return None
            d = _const_diff(p[1][0] or '0', cur)
            if d is None:
                continue
            if d < 0:
                return None              # starts before the end of what was already taken: overlap
            if best is None or d < best[0]:
                best = (d, p)
        if best is None:
            return None
        d, p = best
        if d > 0:
            if _int(cur) is None:
                return None              # a hole behind a position that depends on the data is not part of a fixed layout
            if out:
                out[-1] = (out[-1][0], out[-1][1], lin_norm(p[1][0]))     # the hole is skipped with the read before it
        w = _const_diff(p[1][1], p[1][0] or '0')
        if w is not None and w <= 0:
            return None
        left.remove(p)
        out.append((p[0], lin_norm(p[1][0] or '0'), lin_norm(p[1][1])))
        cur = lin_norm(p[1][1])
    tail = _const_diff(hi, cur)
    if tail is None or tail < 0:
        return None
    if tail > 0:
        if _int(cur) is None:
            return None
        out[-1] = (out[-1][0], out[-1][1], lin_norm(hi))
    return out


def _int(t):
    try:
        return int(t)
    except (TypeError, ValueError):
        return None


def writer_items(prog, fi, scenario=None, self_cls=None):
    """Byte items returned by a writer (one list per path)."""
    sc = scenario or Scenario()
    if self_cls is not None:
        sc.self_cls = self_cls
    outs = Interp(prog, sc).run(fi)
    res = []
    for s in outs:
        if s.raised is not None and s.ret is None:
            continue
        if isinstance(s.ret, Bytes):
            res.append((s, merge_consts(s.ret.items)))
        elif isinstance(s.ret, Sym):
            res.append((s, [('SYM', s.ret.text)]))
        else:
            res.append((s, None))
    return res


def length_covers(items):
    """Generic rule: every LEN(w; x) emitted must be followed by exactly the term x.  Yields (ok, lenitem, following)."""
    out = []
    its = merge_consts(items)
    for i, it in enumerate(its):
        if it[0] in ('INT', 'BYTE'):
            t = it[2] if it[0] == 'INT' else it[1]
            m = re.match(r'^len\((.*)\)$', t)
            if not m or not _balanced(m.group(1)):
                continue
            x = m.group(1)
            # find the term x among the following items (lengths may precede several payloads: n, m, name, value)
            follow = []
            for j in its[i + 1:]:
                t = render_item(j)
                # opaque values concatenated in one `+` expression are the same terms appended one after the other
                parts = [t]
                if j[0] == 'SYM' and t.startswith('(') and t.endswith(')') and _balanced(t[1:-1]):
                    parts, d, cur = [], 0, ''
                    for tok in t[1:-1].split(' '):
                        if tok == '+' and d == 0:
                            parts.append(cur.strip())
                            cur = ''
                            continue
                        d += sum(ch in '([{' for ch in tok) - sum(ch in ')]}' for ch in tok)
                        cur += ' ' + tok
                    parts.append(cur.strip())
                follow.extend(parts)
            ok = x in follow
            out.append((ok, render_item(it), x, follow[:4]))
    return out


def _balanced(s):
    d = 0
    for ch in s:
        if ch in '([{':
            d += 1
        elif ch in ')]}':
            d -= 1
            if d < 0:
                return False
    return d == 0
