"""RFC 4880 section 5.2.4 hashed-data layouts (the oracle) and the scenario table for PGPSignature.hashdata.

Shared by C01 (verify path), C02 (signing path) and C05 (what the HASHED term is).
Templates are transcribed from RFC 4880 5.2.4 (+ rfc4880bis for 0x16 and 0x28) and never read anything from /repo.
"""
import re

from .interp import Interp, Scenario, Sym, Const, Enum, Bytes, render, render_items, merge_consts, render_item, lin_norm, sl
from .templates import C, LEN, BYTE, SYM, Pred, match_any, render_template, split_top, length_covers_run
from .loader import AnalysisError
from . import regexast

# RFC 4880 5.2.1 signature type ids (oracle; compared with the enum table of the repo)
SIGTYPES = {
    'BinaryDocument': 0x00, 'CanonicalDocument': 0x01, 'Standalone': 0x02,
    'Generic_Cert': 0x10, 'Persona_Cert': 0x11, 'Casual_Cert': 0x12, 'Positive_Cert': 0x13,
    'Attestation': 0x16, 'Subkey_Binding': 0x18, 'PrimaryKey_Binding': 0x19, 'DirectlyOnKey': 0x1F,
    'KeyRevocation': 0x20, 'SubkeyRevocation': 0x28, 'CertRevocation': 0x30, 'Timestamp': 0x40,
    'ThirdParty_Confirmation': 0x50,
}


def enum_const(prog, clsname, member, module='pgpy.constants'):
    ci = prog.cls(module, clsname)
    mem = ci.enum_members()
    if member not in mem:
        raise AnalysisError('enum member %s.%s vanished' % (clsname, member))
    return Const(Enum(clsname, member, mem[member]))


# ---------------------------------------------------------------------------------------------- templates
def KEYHASH(k):
    # RFC 4880 5.2.4: 0x99, two-octet length, key packet body
    return [C('99'), LEN(2, k), SYM(k)]


def UIDHASH(u):
    # V4 certification: 0xB4, four-octet length, user id
    return [C('b4'), LEN(4, u), SYM(u)]


def UAHASH(u):
    return [C('d1'), LEN(4, u), SYM(u)]


def trailer(VERSION, SIGTYPE, PKALG, HALG, HASHED):
    five = [BYTE(VERSION), BYTE(SIGTYPE), BYTE(PKALG), BYTE(HALG), SYM(HASHED)]
    five_text = render_items(five)

    def lenpred(item):
        # the four header octets plus the hashed area, in any integer-linear spelling: len(whole run), 4 + len(h), len(h) + 2 + 2,
        # len(fixed) + len(h) with fixed the four octets, ... - every covered item exactly once
        return item[0] == 'INT' and item[1] == '4' and length_covers_run(item[2], five)
    return five + [C('04ff'), Pred('LEN(4; version..hashed-area)', lenpred)]


def _balanced(t):
    d = 0
    for ch in t:
        d += ch in '([{'
        d -= ch in ')]}'
        if d < 0:
            return False
    return d == 0


# what the decisions of the path being matched imply (set by check_hashdata before each match)
_PATH = {'no_lf': set()}
LF_TEXTS = ('C(0a)', '10', "'\\n'")


def implied_atoms(sk, value, out=None):
    """Atoms of a decision skeleton whose truth the decision taken FORCES: the atom itself, through `not`, every conjunct of a
    true `and`, every disjunct of a false `or`.  Nothing is implied by a false `and` / true `or`.
    With `out` the pairs are appended to it; without, the list of (atom, truth) pairs is returned."""
    if out is None:
        res = []
        implied_atoms(sk, value, res)
        return res
    if sk is None:
        return
    k = sk[0]
    if k == 'const':
        return
    if k == 'not':
        implied_atoms(sk[1], not value, out)
    elif k == 'and':
        if value:
            for x in sk[1]:
                implied_atoms(x, True, out)
    elif k == 'or':
        if not value:
            for x in sk[1]:
                implied_atoms(x, False, out)
    else:
        out.append((sk, value))


def documents_without_lf(s):
    """Texts X for which the decisions of path s imply "no LF octet occurs in X": a membership test of exactly the LF octet
    (b'\\n' / 10) in X that the path decided as absent.  Nothing weaker counts (a test for CR, for a length, for a type)."""
    out = set()
    for text, value, sk in s.facts:
        atoms = []
        implied_atoms(sk, value, atoms)
        for a, v in atoms:
            if a[0] == 'cmp' and a[1] in ('in', 'not in') and a[2] in LF_TEXTS and (a[1] == 'not in') == v:
                out.add(a[3])
    return out


def canon_pred(doc_aliases):
    """CANON(DOC): every line ending of DOC converted to CR LF (RFC 4880 5.2.4 / 7.1), decided on the regex AST."""
    def p(item):
        if item[0] != 'SYM':
            return False
        if item[1] in doc_aliases and item[1] in _PATH['no_lf']:
            return True           # on a path that decided "DOC contains no LF" the canonical form of DOC is DOC itself
        # value text of the term: re.sub(P, R, DOC[, 0][, flags=0]) or re.subn(...)[0]; a compiled pattern is spelled back to this
        # form by the canonicaliser, locals are resolved by the interpreter
        m = re.match(r"^re\.(subn?)\((.*)\)(\[0\])?$", item[1])
        mc = re.match(r"^re\.compile\((.*?)\)\.(subn?)\((.*)\)(\[0\])?$", item[1])
        if mc and _balanced(mc.group(1)) and _balanced(mc.group(3)):
            # a pattern object held in a local: re.compile(P[, flags]).sub(R, DOC) is re.sub(P, R, DOC[, flags=...])
            fn, idx = mc.group(2), mc.group(4)
            ca = split_top(mc.group(1))
            a = [ca[0]] + split_top(mc.group(3)) + ['flags=%s' % x.split('=')[-1] for x in ca[1:]]
        elif m:
            fn, idx = m.group(1), m.group(3)
            a = split_top(m.group(2))
        else:
            return False
        if (fn == 'subn') != bool(idx):
            return False
        kw = dict(x.split('=', 1) for x in a if re.match(r'^[a-z]+=', x))
        a = [x for x in a if not re.match(r'^[a-z]+=', x)]
        if len(a) == 4 and a[3] == '0':
            a = a[:3]
        if len(a) != 3 or any(k not in ('count', 'flags') or v != '0' for k, v in kw.items()):
            return False
        pat, repl, doc = a
        if repl != 'C(0d0a)' or doc not in doc_aliases:
            return False
        pm = re.match(r'^C\(([0-9a-f]*)\)$', pat)
        if not pm:
            return False
        pattern = bytes.fromhex(pm.group(1))
        return regexast.matches_exactly_line_endings(pattern)
    return Pred('CANON(DOC): re.sub(line-ending -> CRLF, DOC)', p)


# ---------------------------------------------------------------------------------------------- scenarios
DOC_ALIASES = ['subject', "subject.encode('utf-8')", "subject.encode('charmap')", 'subject.encode()', "subject.encode('utf8')",
               "subject.encode('UTF-8')", "bytes(subject, 'utf-8')"]

CERT_TYPES = ['Generic_Cert', 'Persona_Cert', 'Casual_Cert', 'Positive_Cert', 'CertRevocation', 'Attestation']


def scenarios():
    """(name, sigtype member, subject Val, body builder(roles)->template items (without trailer), role aliases, extra binds)"""
    out = []

    def subj_bytes():
        return Sym('subject', types={'bytes'}, nonnull=True)

    def subj_str():
        return Sym('subject', types={'str'}, nonnull=True)

    def subj_uid(is_uid):
        return Sym('subject', types={'PGPUID'}, attrs={'is_uid': Const(is_uid), 'is_ua': Const(not is_uid)}, nonnull=True)

    def subj_key(primary):
        return Sym('subject', types={'PGPKey'}, attrs={'is_primary': Const(primary)}, nonnull=True)

    def subj_bytearray():
        return Sym('subject', types={'bytearray'}, nonnull=True)

    for kind, mk in (('bytes', subj_bytes), ('str', subj_str), ('bytearray', subj_bytearray)):
        out.append(('0x00 BinaryDocument x %s' % kind, 'BinaryDocument', mk(),
                    lambda DOC: [SYM(DOC)], {'DOC': DOC_ALIASES}, {}))
        out.append(('0x01 CanonicalDocument x %s' % kind, 'CanonicalDocument', mk(),
                    lambda: [canon_pred(DOC_ALIASES)], {}, {}))
    out.append(('0x02 Standalone x None', 'Standalone', Const(None), lambda: [], {}, {}))
    out.append(('0x40 Timestamp x None', 'Timestamp', Const(None), lambda: [], {}, {}))
    for t in CERT_TYPES:
        out.append(('%s x user id' % t, t, subj_uid(True),
                    lambda: KEYHASH('subject._parent.hashdata') + UIDHASH('subject.hashdata'), {}, {}))
        out.append(('%s x user attribute' % t, t, subj_uid(False),
                    lambda: KEYHASH('subject._parent.hashdata') + UAHASH('subject.hashdata'), {}, {}))
    out.append(('0x18 Subkey_Binding x subkey', 'Subkey_Binding', subj_key(False),
                lambda: KEYHASH('subject._parent.hashdata') + KEYHASH('subject.hashdata'), {}, {}))
    out.append(('0x19 PrimaryKey_Binding x primary', 'PrimaryKey_Binding', subj_key(True),
                lambda: KEYHASH('subject.hashdata') + KEYHASH('subject.subkeys[self.signer].hashdata'), {}, {}))
    out.append(('0x19 PrimaryKey_Binding x subkey (embedded)', 'PrimaryKey_Binding', subj_key(False),
                lambda: KEYHASH('subject._parent.hashdata') + KEYHASH('subject.hashdata'), {}, {'self.embedded': Const(True)}))
    out.append(('0x1f DirectlyOnKey x primary', 'DirectlyOnKey', subj_key(True),
                lambda: KEYHASH('subject.hashdata'), {}, {}))
    out.append(('0x20 KeyRevocation x primary', 'KeyRevocation', subj_key(True),
                lambda: KEYHASH('subject.hashdata'), {}, {}))
    out.append(('0x28 SubkeyRevocation x subkey', 'SubkeyRevocation', subj_key(False),
                lambda: KEYHASH('subject._parent.hashdata') + KEYHASH('subject.hashdata'), {}, {}))
    return out


TRAILER_ALIASES = {
    'VERSION': ['self._signature.header.version', 'self._signature._sig.header.version'],
    'SIGTYPE': None,   # filled per scenario
    'PKALG': ['self.key_algorithm', 'self._signature.pubalg'],
    'HALG': ['self.hash_algorithm', 'self._signature.halg'],
    'HASHED': ['self._signature.subpackets.__hashbytearray__()'],
}


def check_hashdata(rep, prog, rid, only_types=None):
    """Evaluate every (type x subject) scenario of PGPSignature.hashdata against the RFC template."""
    fi = prog.method('pgpy.pgp', 'PGPSignature', 'hashdata')
    rep.saw(fn=fi)
    stype = prog.cls('pgpy.constants', 'SignatureType')
    members = stype.enum_members()
    # the enum table itself is part of what is hashed (the type octet)
    for name, val in SIGTYPES.items():
        if name in members:
            rep.check(members[name] == val, rid + '.ids', 'SignatureType.%s' % name, 'SignatureType.%s = %r' % (name, members.get(name)),
                      'signature type id differs from RFC 4880 5.2.1 (%#x)' % val, where=stype.where,
                      expected=hex(val), found=repr(members.get(name)), scenario=name)
    cls = prog.cls('pgpy.pgp', 'PGPSignature')

    def inline(f):
        return f.cls is not None and f.cls.name == 'PGPSignature' and f.name not in ('hashdata',)

    n = 0
    for name, member, subj, body, aliases, binds in scenarios():
        if only_types is not None and member not in only_types:
            continue
        if member not in members:
            raise AnalysisError('SignatureType.%s vanished' % member)
        ec = Const(Enum('SignatureType', member, members[member]))
        bind = {'self.type': ec, 'self._signature.sigtype': ec, 'self.embedded': Const(False)}
        bind.update(binds)
        if len(fi.params) < 2:
            raise AnalysisError('PGPSignature.hashdata: subject parameter vanished')
        sc = Scenario(name=name, bind=bind, args={fi.params[1]: subj}, inline=inline, max_depth=3,
                      axioms={'subject._parent.hashdata': True, 'subject.hashdata': True,   # a key's hashed octets are never empty
                              '(len(subject._parent.hashdata) > 0)': True, '(len(subject.hashdata) > 0)': True,
                              '(0 in list(self._signature.signature))': False})
        I = Interp(prog, sc)
        outs = I.run(fi)
        rep.analysed['paths'] += len(outs)
        role_aliases = dict(aliases)
        role_aliases.update({'VERSION': TRAILER_ALIASES['VERSION'],
                             'SIGTYPE': ['SignatureType.%s' % member, 'self.type', 'self._signature.sigtype'],
                             'PKALG': TRAILER_ALIASES['PKALG'], 'HALG': TRAILER_ALIASES['HALG'],
                             'HASHED': TRAILER_ALIASES['HASHED']})
        body_roles = sorted(aliases)

        def builder(_body=body, _br=body_roles, **roles):
            b = _body(**{k: roles[k] for k in _br})
            return b + trailer(roles['VERSION'], roles['SIGTYPE'], roles['PKALG'], roles['HALG'], roles['HASHED'])
        seen = set()
        for s in outs:
            if s.raised is not None and s.ret is None:
                continue
            if not isinstance(s.ret, Bytes):
                rep.violation(rid, 'PGPSignature.hashdata', 'return %s' % render(s.ret),
                              'hashdata does not return a byte string on a path of scenario %s' % name,
                              where=fi.where, scenario=name, found=render(s.ret))
                continue
            r = render(s.ret)
            nolf = documents_without_lf(s)
            if (r, frozenset(nolf)) in seen:
                continue
            seen.add((r, frozenset(nolf)))
            _PATH['no_lf'] = nolf
            try:
                ok, roles, msg, exp = match_any(s.ret.items, builder, role_aliases)
            finally:
                _PATH['no_lf'] = set()
            n += 1
            if ok:
                rep.ok(rid, 'PGPSignature.hashdata', {'found': r, 'template': exp}, scenario=name)
            else:
                rep.violation(rid, 'PGPSignature.hashdata', 'scenario %s: %s' % (name, msg),
                              'octets hashed for %s differ from RFC 4880 5.2.4: %s' % (name, msg),
                              where=fi.where, expected=exp, found=r, scenario=name)
        if not seen:
            rep.violation(rid, 'PGPSignature.hashdata', 'scenario %s: no returning path' % name,
                          'hashdata has no returning path for %s' % name, where=fi.where, scenario=name)
    return n


def _through_helper(prog, found):
    """`X.m()` where m is a no-argument method: the value(s) m returns for receiver X (every definition of m in the package,
    so that the receiver's class need not be known); the text itself when m is not a method of the package."""
    m = re.match(r'^(.+)\.([A-Za-z_]\w*)\(\)$', found)
    if not m or not _balanced(m.group(1)) or m.group(2) in ('__bytearray__', '__bytes__', 'pubkey'):
        return [found]
    defs = [f for f in prog.all_functions() if f.name == m.group(2) and f.cls is not None and len(f.params) == 1]
    if not defs:
        return [found]
    outs = []
    for f in defs:
        for s in Interp(prog, Scenario(inline=lambda g: False)).run(f, self_val=Sym(m.group(1), nonnull=True)):
            if s.raised is None:
                outs.append(render(s.ret) if s.ret is not None else '<no return>')
    return outs or [found]


def check_subject_hashdata(rep, prog, rid):
    """PGPKey.hashdata = public key packet body; PGPUID.hashdata = user id body / user attribute subpackets."""
    fk = prog.method('pgpy.pgp', 'PGPKey', 'hashdata')
    rep.saw(fn=fk)
    for public, X in ((True, 'self._key'), (False, 'self._key.pubkey()')):
        sc = Scenario(bind={'self.is_public': Const(public)})
        outs = Interp(prog, sc).run(fk)
        for s in outs:
            exp = sl('%s.__bytearray__()' % X, ('len(%s.header)' % X, ''))
            found = render(s.ret) if s.ret is not None else '<no return>'
            if found != exp and all(x == exp for x in _through_helper(prog, found)):
                found = exp          # the body is taken through a helper method of the packet that returns exactly that slice
            rep.check(found == exp, rid, 'PGPKey.hashdata', 'is_public=%s: return %s' % (public, found),
                      'key hashdata must be the body of the PUBLIC key packet (packet minus header)',
                      where=fk.where, expected=exp, found=found, scenario='is_public=%s' % public)
    fu = prog.method('pgpy.pgp', 'PGPUID', 'hashdata')
    rep.saw(fn=fu)
    for uid in (True, False):
        sc = Scenario(bind={'self.is_uid': Const(uid), 'self.is_ua': Const(not uid)})
        outs = Interp(prog, sc).run(fu)
        exp = sl('self._uid.__bytearray__()', ('len(self._uid.header)', '')) if uid else 'self._uid.subpackets.__bytearray__()'
        for s in outs:
            found = render(s.ret) if s.ret is not None else '<no return>'
            if found != exp and all(x == exp for x in _through_helper(prog, found)):
                found = exp
            rep.check(found == exp, rid, 'PGPUID.hashdata', 'is_uid=%s: return %s' % (uid, found),
                      'user id hashdata must be the user-id packet body / the user-attribute subpacket octets',
                      where=fu.where, expected=exp, found=found, scenario='is_uid=%s' % uid)
