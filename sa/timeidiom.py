"""datetime -> seconds-since-epoch sites: every one must use a UTC-correct idiom (RFC 4880 3.5: seconds since 1970 UTC).

A site is a *call* that turns a datetime into epoch seconds (`timegm`, `mktime`, `.timestamp()`).  It is classified by the
value that reaches it (interpreter call events: locals are propagated by value, so `tt = x.utctimetuple(); timegm(tt)` is the
same site as `timegm(x.utctimetuple())`), not by the spelling of the statement.  The AST is used only to locate candidate
functions and for call nodes the interpreter does not reach.
"""
import ast
import re

from .loader import dotted, AnalysisError

# normalised with the datetime expression replaced by X
UTC_TIME_FORMS = {'calendar.timegm(X.utctimetuple())', 'timegm(X.utctimetuple())'}

CONVERTERS = ('timegm', 'mktime')


def is_utc_seconds(text, of=None):
    """`text` is the UTC-correct epoch-seconds term of some datetime expression (of `of`, if given)."""
    m = re.match(r'^(?:calendar\.)?timegm\((.+)\.utctimetuple\(\)\)$', text or '')
    return bool(m) and (of is None or m.group(1) == of)


def _kind_of_value(fname, argtext):
    """Classification of converter `fname` applied to the value rendered as `argtext`."""
    if fname == 'mktime':
        return 'local'                      # time.mktime interprets the tuple in the process' local zone, whatever tuple it is
    if re.match(r'^.+\.utctimetuple\(\)$', argtext or ''):
        return 'utc'
    if re.match(r'^.+\.timetuple\(\)$', argtext or ''):
        return 'drops-offset'
    return 'unknown'


def _kind_of_node(n):
    """Fallback for a call node the interpreter did not reach: the literal idiom only."""
    fname = (dotted(n.func) or '').split('.')[-1]
    if fname == 'mktime':
        return 'local'
    a = n.args[0]
    if isinstance(a, ast.Call) and isinstance(a.func, ast.Attribute) and not a.args:
        if a.func.attr == 'utctimetuple':
            return 'utc'
        if a.func.attr == 'timetuple':
            return 'drops-offset'
    return 'unknown'


def _candidates(fn):
    out = []
    for n in ast.walk(fn.node):
        if not isinstance(n, ast.Call):
            continue
        d = dotted(n.func) or ''
        if d.split('.')[-1] in CONVERTERS and n.args:
            out.append((n, 'conv'))
        elif isinstance(n.func, ast.Attribute) and n.func.attr == 'timestamp' and not n.args and not n.keywords:
            # datetime.timestamp() interprets a naive datetime in the process' LOCAL zone (utctimetuple treats it as UTC):
            # the octets would then depend on the TZ of the process
            out.append((n, 'timestamp'))
    return out


def time_sites(prog, only=None):
    """(function, call node, classification, text) for every conversion of a datetime to epoch seconds."""
    from .interp import Interp, Scenario
    out = []
    for fn in prog.all_functions():
        if only is not None and fn.qualname not in only:
            continue
        cands = _candidates(fn)
        if not cands:
            continue
        by_node = {}
        try:
            for s in Interp(prog, Scenario(inline=lambda f: False, join_unknown=True)).run(fn):
                for c in s.calls:
                    by_node.setdefault(id(c[4]), []).append(c)
        except AnalysisError:
            by_node = {}                    # not interpretable (path explosion ...): literal idiom only
        for n, what in cands:
            if what == 'timestamp':
                out.append((fn, n, 'local-for-naive', ast.unparse(n)))
                continue
            recs = by_node.get(id(n))
            if not recs:
                out.append((fn, n, _kind_of_node(n), ast.unparse(n)))
                continue
            kinds, texts = [], []
            for c in recs:
                fname = c[0].split('.')[-1]
                arg = c[1][0] if c[1] else None
                k = _kind_of_value(fname, arg)
                if k not in kinds:
                    kinds.append(k)
                    texts.append('%s(%s)' % (c[0], arg))
            # one site, several values reaching it: the worst classification decides
            bad = [i for i, k in enumerate(kinds) if k != 'utc']
            i = bad[0] if bad else 0
            out.append((fn, n, kinds[i], texts[i]))
    return out


def check_time_sites(rep, prog, rid, only=None):
    n = 0
    for fn, node, kind, text in time_sites(prog, only):
        n += 1
        rep.saw(fn=fn)
        rep.check(kind == 'utc', rid, fn.qualname, text,
                  'a datetime is converted to epoch seconds with an idiom that ignores its UTC offset (%s)' % kind,
                  where='%s:%d' % (fn.module.relpath, node.lineno),
                  expected='calendar.timegm(x.utctimetuple())', found=text)
    return n


# ------------------------------------------------------------------------------------------------ readers (seconds -> datetime)
CLOCKS = ('datetime.now', 'datetime.utcnow', 'datetime.today', 'datetime.datetime.now', 'datetime.datetime.utcnow', 'time.time',
          'time.time_ns', 'time.gmtime', 'time.localtime', 'date.today', 'time.monotonic')


def is_utc_datetime_of(text, secs):
    """`text` is the aware UTC datetime of the epoch seconds rendered as `secs` (the idioms agree on 0 .. 2**32-1)."""
    t = (text or '').replace(' ', '')
    s = secs.replace(' ', '')
    return t in ('datetime.fromtimestamp(%s,timezone.utc)' % s, 'datetime.fromtimestamp(%s,tz=timezone.utc)' % s,
                 'datetime.utcfromtimestamp(%s).replace(tzinfo=timezone.utc)' % s,
                 'datetime.datetime.fromtimestamp(%s,datetime.timezone.utc)' % s,
                 'datetime.datetime.fromtimestamp(%s,tz=datetime.timezone.utc)' % s)


def is_big_endian_int_of(text, octets):
    t = (text or '').replace(' ', '')
    o = octets.replace(' ', '')
    return bool(re.match(r"^(?:[A-Za-z_][\w.]*\.)?bytes_to_int\(%s(?:,'big')?\)$" % re.escape(o), t)) or \
        t in ("int.from_bytes(%s,'big')" % o, "int.from_bytes(%s,byteorder='big')" % o)


def check_time_readers(rep, prog, rid, module, clsname, prop):
    """The setters through which a parsed time field reaches the object (`<cls>.<prop>`: octets -> seconds -> datetime) are the
    identity on the value received and read no clock: a creation time is never replaced, clamped or defaulted on import (the
    fingerprint hashes it).  Decided per registered setter on interpreter store / call values, on every path."""
    from .interp import Interp, Scenario, render
    ci = prog.cls(module, clsname)
    p = ci.find_prop(prop)
    if p is None or not p.setter_order:
        raise AnalysisError('%s.%s sdproperty vanished' % (clsname, prop))
    seen = set()
    n = 0
    for tname, fi in p.setter_order:
        if id(fi.node) in seen or len(fi.params) < 2:
            continue
        seen.add(id(fi.node))
        rep.saw(fn=fi)
        me, val = fi.params[0], fi.params[1]
        kinds = set((t or '').split('.')[-1] for t, f in p.setter_order if f.node is fi.node)
        outs = Interp(prog, Scenario(inline=lambda f: False)).run(fi)
        clocks = sorted(set(c[0] for s in outs for c in s.calls if c[0] in CLOCKS or c[0].split('.')[-1] in ('utcnow',)))
        n += 1
        rep.check(not clocks, rid, fi.qualname, 'clock reads on the way of a parsed %s: %s' % (prop, clocks or 'none'),
                  'a time field read from a packet must not depend on the clock of the importing host', where=fi.where, found=clocks)
        for s in outs:
            if s.raised:
                continue
            targets = [(pth, v) for pth, v, l, _ in s.stores if pth.startswith(me + '.') and pth.count('.') == 1]
            last = targets[-1][1] if targets else None
            if kinds & {'datetime'}:
                ok = last == val
                want = val
            elif kinds & {'int'}:
                ok = last is not None and is_utc_datetime_of(last, val)
                want = 'datetime.fromtimestamp(%s, timezone.utc)' % val
            elif kinds & {'bytes', 'bytearray'}:
                ok = last is not None and (is_big_endian_int_of(last, val) or
                                           any(is_utc_datetime_of(last, '%s.bytes_to_int(%s)' % (me, val)) for _ in (0,)))
                want = '%s.bytes_to_int(%s)' % (me, val)
            else:
                continue
            n += 1
            rep.check(ok, rid, fi.qualname, '%s setter stores %s' % ('/'.join(sorted(kinds)), last),
                      'the %s received is stored as it is (octets -> big-endian seconds -> UTC datetime), on every path' % prop,
                      where=fi.where, expected=want, found=last)
    return n
