"""datetime -> seconds-since-epoch sites: every one must use a UTC-correct idiom (RFC 4880 3.5: seconds since 1970 UTC)."""
import ast

from .loader import dotted

# normalised with the datetime expression replaced by X
UTC_TIME_FORMS = {'calendar.timegm(X.utctimetuple())', 'timegm(X.utctimetuple())'}


def time_sites(prog):
    """(function, call node, classification, text) for every conversion of a datetime to epoch seconds."""
    out = []
    for fn in prog.all_functions():
        for n in ast.walk(fn.node):
            if not isinstance(n, ast.Call):
                continue
            d = dotted(n.func) or ''
            if d.split('.')[-1] in ('timegm', 'mktime') and n.args:
                a = n.args[0]
                kind = 'unknown'
                if isinstance(a, ast.Call) and isinstance(a.func, ast.Attribute):
                    if a.func.attr == 'utctimetuple':
                        kind = 'utc' if d.split('.')[-1] == 'timegm' else 'local'
                    elif a.func.attr == 'timetuple':
                        kind = 'drops-offset'
                if d.split('.')[-1] == 'mktime':
                    kind = 'local'
                out.append((fn, n, kind, ast.unparse(n)))
            elif isinstance(n.func, ast.Attribute) and n.func.attr == 'timestamp' and not n.args:
                # datetime.timestamp() interprets a naive datetime in the process' LOCAL zone (utctimetuple treats it as UTC):
                # the octets would then depend on the TZ of the process
                out.append((fn, n, 'local-for-naive', ast.unparse(n)))
    return out


def check_time_sites(rep, prog, rid, only=None):
    n = 0
    for fn, node, kind, text in time_sites(prog):
        if only is not None and fn.qualname not in only:
            continue
        n += 1
        rep.saw(fn=fn)
        rep.check(kind == 'utc', rid, fn.qualname, text,
                  'a datetime is converted to epoch seconds with an idiom that ignores its UTC offset (%s)' % kind,
                  where='%s:%d' % (fn.module.relpath, node.lineno),
                  expected='calendar.timegm(x.utctimetuple())', found=text)
    return n
