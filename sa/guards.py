"""E3 - guard rules over interpreter paths: presence, compared terms (atoms), polarity, reaction, dominance.

A guard is an `if` whose test contains a *guard atom* (a comparison of two terms the rule names).  For every path of
the function (the interpreter forks on each undecided test, so a path carries the list of decisions it took):
  * a path that returns normally must contain the guard decision               (presence + dominance: no way around it)
  * the decision taken on a returning path must be the one that holds when the atom says MATCH      (polarity)
  * hence every path on which the atom says MISMATCH ends in `raise`                                (reaction)
Boolean skeletons (not / and / or around the atom) are evaluated three-valued, so `if not eq(a, b): raise`,
`if a != b: raise`, `if eq(a, b): pass else: raise` are all the same guard.
"""


def eval_skel(sk, atom_value):
    """Evaluate a skeleton with atom_value(atom) -> True/False/None."""
    if sk is None:
        return None
    k = sk[0]
    if k == 'const':
        return sk[1]
    if k == 'not':
        v = eval_skel(sk[1], atom_value)
        return None if v is None else (not v)
    if k in ('and', 'or'):
        vals = [eval_skel(x, atom_value) for x in sk[1]]
        if k == 'and':
            if any(v is False for v in vals):
                return False
            if all(v is True for v in vals):
                return True
            return None
        if any(v is True for v in vals):
            return True
        if all(v is False for v in vals):
            return False
        return None
    return atom_value(sk)


def atoms(sk):
    if sk is None:
        return []
    if sk[0] == 'not':
        return atoms(sk[1])
    if sk[0] in ('and', 'or'):
        out = []
        for x in sk[1]:
            out.extend(atoms(x))
        return out
    return [sk]


def equality_of(atom):
    """If the atom is an equality test return (left, right, positive?) else None.
       positive? is True when atom true means EQUAL."""
    if atom[0] == 'cmp' and atom[1] in ('==', '!=', 'is', 'is not'):
        return atom[2], atom[3], atom[1] in ('==', 'is')
    if atom[0] == 'call' and atom[1].split('.')[-1] in ('bytes_eq', 'compare_digest') and len(atom[2]) == 2:
        return atom[2][0], atom[2][1], True
    return None


def check_guard(rep, rid, construct, states, side_pred, what, where, min_returns=1, scenario=None):
    """side_pred(left, right) -> True when the equality atom compares the two terms this guard is about.

    Returns True when the guard holds on every path."""
    n_ret = 0
    ok = True
    seen_guard = False
    for s in states:
        returns = s.raised is None
        guard_fact = None
        for text, value, sk in s.facts:
            for a in atoms(sk):
                eq = equality_of(a)
                if eq is not None and (side_pred(eq[0], eq[1]) or side_pred(eq[1], eq[0])):
                    guard_fact = (text, value, sk, a, eq)
                    break
            if guard_fact:
                break
        if guard_fact is None:
            if returns:
                n_ret += 1
                ok = False
                rep.violation(rid, construct, 'returning path without the check: %s' % what,
                              'a path returns the protected value without %s' % what, where=where,
                              expected='the comparison on every returning path', found='decisions on this path: %s' % [f[0] for f in s.facts],
                              scenario=scenario)
            continue
        seen_guard = True
        text, value, sk, a, eq = guard_fact

        def val(atom, _a=a, _eq=eq, match=True):
            if atom is _a:
                return match if _eq[2] else (not match)
            return None
        on_match = eval_skel(sk, lambda at: val(at, match=True))
        on_mismatch = eval_skel(sk, lambda at: val(at, match=False))
        if returns:
            n_ret += 1
            if on_mismatch is not None and value == on_mismatch:
                ok = False
                rep.violation(rid, construct, 'mismatch does not stop the path: %s' % text,
                              'when %s fails the function still returns (wrong polarity or a non-raising reaction)' % what, where=where,
                              expected='raise on mismatch', found='path with (%s) = %s returns %s' % (text, value, _ret(s)), scenario=scenario)
            elif on_mismatch is None:      # (a decided on_mismatch that differs from the decision taken means: only a match gets here)
                ok = False
                rep.violation(rid, construct, 'check does not decide the path: %s' % text,
                              'the comparison for %s does not control whether the value is returned' % what, where=where, found=text,
                              scenario=scenario)
    if not seen_guard and ok:
        ok = False
        rep.violation(rid, construct, 'check absent: %s' % what, '%s is never performed' % what, where=where, scenario=scenario)
    if n_ret < min_returns and ok:
        ok = False
        rep.violation(rid, construct, 'no returning path', 'the function has no returning path at all', where=where, scenario=scenario)
    if ok:
        rep.ok(rid, construct, '%s: present on every returning path, right polarity, raises on mismatch' % what, scenario=scenario)
    return ok


def _ret(s):
    from .interp import render
    return render(s.ret) if s.ret is not None else None
