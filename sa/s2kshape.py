"""String2Key coded count (RFC 4880 3.7.1.3) and S2K specifier codec agreement (shared by C09.4 and C12.3/4)."""
import ast
import math
from fractions import Fraction
from numbers import Rational

from .interp import Interp, Scenario, Sym, Const, Bytes, Obj, render, render_items, merge_consts, render_item
from .loader import AnalysisError
from .sigdata import enum_const
from . import codec


class _NoFold(Exception):
    pass


class _Table(dict):
    """A folded dict literal (lookup table with integer keys / values)."""


_BUILTINS = {'divmod': divmod, 'min': min, 'max': max, 'abs': abs, 'int': int, 'bool': bool, 'pow': pow, 'round': round,
             'math.ceil': math.ceil, 'math.floor': math.floor, 'ceil': math.ceil, 'floor': math.floor, 'math.trunc': math.trunc}


def fold(node, env):
    """Constant folding of a closed integer expression by the checker's own evaluator (no repo code runs)."""
    if isinstance(node, ast.Constant) and (isinstance(node.value, int) or node.value is None):
        return node.value
    if isinstance(node, ast.Name) and node.id in env:
        return env[node.id]
    if isinstance(node, (ast.Attribute, ast.Subscript)):
        t = ast.unparse(node)
        if t in env:
            return env[t]
        if isinstance(node, ast.Subscript) and isinstance(node.value, ast.Dict):
            k = fold(node.slice, env)
            for kn, vn in zip(node.value.keys, node.value.values):
                if fold(kn, env) == k:
                    return fold(vn, env)
        if isinstance(node, ast.Subscript) and not isinstance(node.slice, ast.Slice) and \
                isinstance(node.value, (ast.Tuple, ast.List, ast.Call, ast.Name, ast.Attribute)):
            base = fold(node.value, env)
            i = fold(node.slice, env)
            if isinstance(base, (tuple, range)) and isinstance(i, int) and -len(base) <= i < len(base):
                return base[i]
            if isinstance(base, _Table) and i in base:
                return base[i]
        raise _NoFold(t)
    if isinstance(node, (ast.GeneratorExp, ast.ListComp)) and len(node.generators) == 1 and isinstance(node.generators[0].target, ast.Name) \
            and not node.generators[0].is_async:
        # a table built by a comprehension over a closed range / tuple (class-level lookup tables)
        g = node.generators[0]
        src = fold(g.iter, env)
        if not isinstance(src, (tuple, range)) or len(src) > 65536:
            raise _NoFold(ast.unparse(node))
        out = []
        for x in src:
            env2 = dict(env)
            env2[g.target.id] = x
            if all(fold(c, env2) for c in g.ifs):
                out.append(fold(node.elt, env2))
        return tuple(out)
    if isinstance(node, ast.Call) and isinstance(node.func, ast.Name) and node.func.id in ('tuple', 'list', 'len', 'sum') and \
            node.func.id not in env and len(node.args) == 1 and not node.keywords:
        a = fold(node.args[0], env)
        if isinstance(a, (tuple, range)):
            return {'tuple': tuple, 'list': tuple, 'len': len, 'sum': sum}[node.func.id](a)
        raise _NoFold(ast.unparse(node))
    if isinstance(node, (ast.Tuple, ast.List, ast.Set)):
        return tuple(fold(e, env) for e in node.elts)
    if isinstance(node, ast.Dict) and all(k is not None for k in node.keys):
        return _Table((fold(k, env), fold(v, env)) for k, v in zip(node.keys, node.values))
    if isinstance(node, ast.Call) and isinstance(node.func, ast.Attribute) and node.func.attr == 'get' and not node.keywords and \
            1 <= len(node.args) <= 2 and isinstance(node.func.value, (ast.Name, ast.Attribute, ast.Dict)):
        base = fold(node.func.value, env)
        if isinstance(base, _Table):
            k = fold(node.args[0], env)
            return base[k] if k in base else (fold(node.args[1], env) if len(node.args) == 2 else None)
        raise _NoFold(ast.unparse(node))
    if isinstance(node, ast.Call) and isinstance(node.func, ast.Name) and node.func.id == 'range' and 'range' not in env and \
            not node.keywords and 1 <= len(node.args) <= 3:
        args = [fold(a, env) for a in node.args]
        if all(isinstance(a, int) for a in args) and (len(args) < 3 or args[2] != 0):
            return range(*args)
        raise _NoFold(ast.unparse(node))
    if isinstance(node, ast.Call) and not node.keywords and ast.unparse(node.func) in _BUILTINS and ast.unparse(node.func) not in env:
        args = [fold(a, env) for a in node.args]
        if not all(isinstance(a, Rational) for a in args):
            raise _NoFold(ast.unparse(node))
        try:
            return _BUILTINS[ast.unparse(node.func)](*args)
        except Exception:
            raise _NoFold(ast.unparse(node))
    if isinstance(node, ast.IfExp):
        return fold(node.body, env) if fold(node.test, env) else fold(node.orelse, env)
    if isinstance(node, ast.BinOp):
        a, b = fold(node.left, env), fold(node.right, env)
        op = type(node.op)
        table = {ast.Add: lambda: a + b, ast.Sub: lambda: a - b, ast.Mult: lambda: a * b, ast.FloorDiv: lambda: a // b,
                 ast.Mod: lambda: a % b, ast.LShift: lambda: a << b, ast.RShift: lambda: a >> b, ast.BitAnd: lambda: a & b,
                 ast.BitOr: lambda: a | b, ast.BitXor: lambda: a ^ b, ast.Pow: lambda: a ** b}
        if op is ast.Div and isinstance(a, Rational) and isinstance(b, Rational) and b != 0:
            q = Fraction(a) / Fraction(b)           # exact true division (no float rounding in the checker)
            return q
        if op not in table:
            raise _NoFold(ast.unparse(node))
        try:
            return table[op]()
        except (ZeroDivisionError, TypeError, ValueError, OverflowError):
            raise _NoFold(ast.unparse(node))
    if isinstance(node, ast.UnaryOp) and isinstance(node.op, ast.USub):
        return -fold(node.operand, env)
    if isinstance(node, ast.Compare):
        left = fold(node.left, env)
        for opn, cn in zip(node.ops, node.comparators):
            b = fold(cn, env)
            a = left
            op = type(opn)
            if op in (ast.Is, ast.IsNot) and (a is None or b is None):
                if ((a is None) == (b is None)) != (op is ast.Is):
                    return False
                left = b
                continue
            if op in (ast.In, ast.NotIn):
                if not isinstance(b, (tuple, range, _Table)):
                    raise _NoFold(ast.unparse(node))
                if (a in b) != (op is ast.In):
                    return False
                left = b
                continue
            tbl = {ast.Lt: a < b, ast.LtE: a <= b, ast.Gt: a > b, ast.GtE: a >= b, ast.Eq: a == b, ast.NotEq: a != b}
            if op not in tbl:
                raise _NoFold(ast.unparse(node))
            if not tbl[op]:
                return False
            left = b
        return True
    if isinstance(node, ast.BoolOp):
        # Python's short-circuit semantics: the value of the deciding operand (later operands are not evaluated)
        v = None
        for sub in node.values:
            v = fold(sub, env)
            if bool(v) != isinstance(node.op, ast.And):
                return v
        return v
    if isinstance(node, ast.UnaryOp) and isinstance(node.op, ast.Not):
        return not fold(node.operand, env)
    raise _NoFold(ast.unparse(node))


class _Leave(Exception):
    def __init__(self, kind, value=None):
        self.kind, self.value = kind, value


def fold_fn(fn_node, env):
    """Concrete evaluation of a small integer function by the checker's own evaluator (no repo code runs): constant
    propagation over straight-line code with branches.  Understands assignments to local names / tuples of names / attributes
    (`self.x = v`), augmented assignments, if / elif / else, assert, return, raise.  `env` maps names and dotted texts
    (`self._count`) to integers; it is updated in place.

    Returns ('return', value, stores) or ('raise', None, stores); stores = {dotted attribute text: value} in store order.
    Anything else (loops, calls of repository code, non-integer values) raises _NoFold."""
    stores = {}

    def ev(node):
        if isinstance(node, ast.NamedExpr) and isinstance(node.target, ast.Name):
            env[node.target.id] = fold(node.value, env)
            return env[node.target.id]
        return fold(node, env)

    def assign(t, v):
        if isinstance(t, ast.Name):
            env[t.id] = v
        elif isinstance(t, (ast.Tuple, ast.List)):
            if not isinstance(v, tuple) or len(v) != len(t.elts):
                raise _NoFold(ast.unparse(t))
            for x, y in zip(t.elts, v):
                assign(x, y)
        elif isinstance(t, ast.Attribute):
            k = ast.unparse(t)
            env[k] = v
            stores[k] = v
        else:
            raise _NoFold(ast.unparse(t))

    def block(stmts):
        for st in stmts:
            if isinstance(st, ast.Pass) or (isinstance(st, ast.Expr) and isinstance(st.value, ast.Constant)):
                continue
            if isinstance(st, ast.Assign):
                v = ev(st.value)
                for t in st.targets:
                    assign(t, v)
            elif isinstance(st, ast.AnnAssign):
                if st.value is not None:
                    assign(st.target, ev(st.value))
            elif isinstance(st, ast.AugAssign):
                cur = ev(st.target)
                assign(st.target, ev(ast.BinOp(left=ast.Constant(cur), op=st.op, right=st.value))
                       if isinstance(cur, int) else _nofold(st))
            elif isinstance(st, ast.If):
                block(st.body if ev(st.test) else st.orelse)
            elif isinstance(st, ast.Assert):
                if not ev(st.test):
                    raise _Leave('raise')
            elif isinstance(st, ast.Return):
                raise _Leave('return', ev(st.value) if st.value is not None else None)
            elif isinstance(st, ast.Raise):
                raise _Leave('raise')
            elif isinstance(st, ast.Delete) and all(isinstance(t, ast.Name) for t in st.targets):
                for t in st.targets:
                    env.pop(t.id, None)
            else:
                raise _NoFold(ast.unparse(st).splitlines()[0])

    try:
        block(fn_node.body)
    except _Leave as lv:
        return lv.kind, lv.value, stores
    return 'return', None, stores


def _nofold(node):
    raise _NoFold(ast.unparse(node))


def class_constants(prog, ci, first='self', seed=None):
    """Integer constants (and tuples of integers: lookup tables, also built by a comprehension over a closed range) a method of
    class `ci` can name: class-level NAME = ... (as self.NAME / K.NAME / type(self).NAME ...) and module-level NAME = ..."""
    def const(v):
        return isinstance(v, int) or (isinstance(v, tuple) and all(isinstance(x, int) for x in v)) or \
            (isinstance(v, _Table) and all(isinstance(x, int) for x in list(v) + list(v.values())))
    env = dict(seed or {})
    for name, node in ci.module.assigns.items():
        try:
            v = fold(node, env) if isinstance(node, ast.AST) else None
        except Exception:
            continue
        if const(v):
            env[name] = v
    for c in reversed(ci.mro()):
        body = dict(env)          # a class body sees the names assigned before in the same body as bare names
        for name, node in c.attrs.items():
            try:
                v = fold(node, body)
            except Exception:
                continue
            if const(v):
                body[name] = v
                for base in (first, c.name, ci.name, 'type(%s)' % first, '%s.__class__' % first):
                    env['%s.%s' % (base, name)] = v
    return env


def _ranges(pts):
    out, i = [], 0
    while i < len(pts):
        j = i
        while j + 1 < len(pts) and pts[j + 1] == pts[j] + 1:
            j += 1
        out.append(str(pts[i]) if i == j else '%d..%d' % (pts[i], pts[j]))
        i = j + 1
    return ', '.join(out)


def _count_setter_outcome(prog, setter, val, why=False):
    """(raised?, {attribute text: stored value}) of the coded-count setter for the concrete argument `val`
    (with why=True a third element: None when the checker's evaluator closed the function, else what it could not evaluate)."""
    r = _count_setter_outcome3(prog, setter, val)
    return r if why else r[:2]


def _count_setter_outcome3(prog, setter, val):
    pname = setter.params[1]
    first = setter.params[0]
    reason = None
    try:
        env = class_constants(prog, setter.cls, first)
        env[pname] = val
        kind, _v, stores = fold_fn(setter.node, env)
        return kind == 'raise', dict(stores), None
    except _NoFold as ex:
        reason = str(ex)
    # not a closed integer function: the byte-term interpreter decides the branch(es) it can
    sc = Scenario(args={pname: Const(val)}, inline=lambda f: False)
    outs = Interp(prog, sc).run(setter)
    raised = all(s.raised is not None for s in outs)
    stores = {}
    if not any(s.raised for s in outs):
        for s in outs:
            for (p, v, l, vv) in s.stores:
                if isinstance(vv, Const) and isinstance(vv.value, int):
                    stores[p] = vv.value
    return raised, stores, reason


def count_backing(prog):
    """The attribute that holds the coded count octet: what the int setter of String2Key.count stores its argument into."""
    ci = prog.cls('pgpy.packet.fields', 'String2Key')
    prop = ci.props.get('count')
    setter = prop.setters.get('int') if prop is not None else None
    if setter is None:
        raise AnalysisError('String2Key.count int setter vanished')
    raised, stores = _count_setter_outcome(prog, setter, 96)
    first = setter.params[0]
    hit = [k for k, v in stores.items() if v == 96 and k.startswith(first + '.')]
    if not raised and len(hit) == 1:
        return hit[0][len(first) + 1:]
    # the setter does not store 96 as given (check_count reports that): the backing attribute is the one attribute it assigns
    tg = set()
    for n in ast.walk(setter.node):
        for t in (n.targets if isinstance(n, ast.Assign) else [n.target] if isinstance(n, (ast.AugAssign, ast.AnnAssign)) else []):
            if isinstance(t, ast.Attribute) and isinstance(t.value, ast.Name) and t.value.id == first:
                tg.add(t.attr)
    if len(tg) != 1:
        raise AnalysisError('String2Key.count int setter does not store the coded octet in one attribute (96 -> %s)' % stores)
    return tg.pop()


def check_count(rep, prog, rid):
    ci = prog.cls('pgpy.packet.fields', 'String2Key')
    prop = ci.props.get('count')
    if prop is None or prop.getter is None:
        raise AnalysisError('String2Key.count property vanished')
    g = prop.getter
    rep.saw(fn=g)
    backing = count_backing(prog)
    first = g.params[0]
    bad = None
    open_pts = {}         # coded value -> what the getter reaches outside the coded octet there
    consts = class_constants(prog, ci, first)
    for c in range(256):
        want = (16 + (c & 15)) << ((c >> 4) + 6)          # RFC 4880 3.7.1.3, EXPBIAS = 6
        env = dict(consts)
        env['%s.%s' % (first, backing)] = c
        try:
            kind, got, stores = fold_fn(g.node, env)
        except _NoFold as ex:
            open_pts[c] = str(ex)
            continue
        if bad is None and (kind != 'return' or got != want or stores):
            bad = (c, want, got if kind == 'return' else 'raise')
    if len(open_pts) == 256:
        # no coded value folds: the getter is outside what the evaluator models (exit 2, never a verdict)
        raise AnalysisError('String2Key.count getter is not a closed arithmetic function of self.%s: %s' % (backing, open_pts[0]))
    found = ' ; '.join(ast.unparse(x) for x in g.node.body)
    rep.check(bad is None, rid, 'String2Key.count', 'decoded count',
              'decoded count differs from RFC 4880 3.7.1.3 (16 + (c & 15)) << ((c >> 4) + 6)'
              + ('' if bad is None else ': c=%d gives %s, RFC gives %d' % (bad[0], bad[2], bad[1])),
              where=g.where, expected='(16 + (c & 15)) << ((c >> 4) + 6) for all 256 coded values', found=found)
    if open_pts:
        # the formula holds where it is closed, but at some coded values the result comes from somewhere else: a special case
        pts = sorted(open_pts)
        deps = sorted(set(open_pts.values()))
        rep.violation(rid, 'String2Key.count', 'decoded count special-cased',
                      'the decoded count at coded value%s %s depends on %s instead of the coded octet: RFC 4880 3.7.1.3 decodes every octet '
                      '0..255 by the one formula' % ('' if len(pts) == 1 else 's', _ranges(pts), ', '.join(deps)), where=g.where,
                      expected='(16 + (c & 15)) << ((c >> 4) + 6) for all 256 coded values', found=found)
    # setter: accepts exactly 0..255 and stores the coded octet
    setter = prop.setters.get('int')
    rep.saw(fn=setter)
    key = '%s.%s' % (setter.params[0], backing)
    points = ((-1, True), (0, False), (255, False), (256, True))
    outcomes = {val: _count_setter_outcome(prog, setter, val, why=True) for val in (-1, 0, 1, 96, 254, 255, 256)}
    for val in sorted(outcomes):
        # compared with the other values of its class (in range / out of range): one statement that the evaluator does not model
        # on every accepted value is a modelling gap, one that shows up at some values only is a special case
        group = [v for v in outcomes if (0 <= v <= 255) == (0 <= val <= 255)]
        if outcomes[val][2] is not None and any(outcomes[v][2] is None for v in group):
            rep.violation(rid, 'String2Key.count_int', 'value %d special-cased' % val,
                          'what the coded count setter does with %d depends on %s instead of the value alone' % (val, outcomes[val][2]),
                          where=setter.where, expected='accept exactly 0..255 and store the octet', scenario='val=%d' % val)
    for val, want_raise in points:
        raised, stores = outcomes[val][:2]
        stored = stores.get(key) == val
        ok = raised if want_raise else (stored and not raised)
        rep.check(ok, rid, 'String2Key.count_int', 'value %d -> %s' % (val, 'raise' if raised else ('stored' if stored else 'dropped')),
                  'the coded count setter must accept exactly 0..255 and store the octet', where=setter.where,
                  expected='raise' if want_raise else 'self.%s = %d' % (backing, val), found='raised=%s stored=%s' % (raised, stored),
                  scenario='val=%d' % val)


SPEC_FIELDS = {
    # RFC 4880 3.7.1.x: what follows the specifier octet
    'Simple': ['halg'],
    'Salted': ['halg', 'salt'],
    'Iterated': ['halg', 'salt', 'count'],
}


def _plain_getter_field(ci, first, name):
    """`name` if it is an ordinary attribute; the backing attribute when `name` is a property whose getter only returns an
    attribute of the object (halg -> _halg); None when the getter computes something (count decodes the coded octet)."""
    pp = ci.find_prop(name)
    getter = pp.getter if pp is not None else (ci.find_plain_prop(name) or {}).get('get')
    if getter is None:
        return name
    body = [st for st in getter.node.body if not (isinstance(st, ast.Expr) and isinstance(st.value, ast.Constant))]
    if len(body) == 1 and isinstance(body[0], ast.Return) and isinstance(body[0].value, ast.Attribute) and \
            isinstance(body[0].value.value, ast.Name) and body[0].value.value.id == getter.params[0]:
        return body[0].value.attr
    return None


def _active_axioms(prog, ci, fn):
    """Truth of `self` / `bool(self)` in `fn` when the usage octet says an S2K specifier follows: decided by interpreting
    String2Key.__bool__ under usage = 254 (never assumed)."""
    b = ci.find_method('__bool__')
    if b is None:
        raise AnalysisError('String2Key.__bool__ vanished')
    outs = Interp(prog, Scenario(bind={'%s.usage' % b.params[0]: Const(254)}, inline=lambda f: False)).run(b)
    vals = set(render(s.ret) for s in outs)
    if vals != {'True'}:
        raise AnalysisError('String2Key.__bool__ does not say that usage 254 carries a specifier: %s' % sorted(vals))
    first = fn.params[0]
    ax = {first: True, 'bool(%s)' % first: True}
    for nm in ('__bool__', '__nonzero__'):
        ax['%s.%s()' % (first, nm)] = True
    return ax


def _int_text(text, env):
    """Value of a rendered integer expression under env (the checker's own folding; None when it is not closed)."""
    try:
        return num_text(text, env)
    except (_NoFold, SyntaxError):
        return None


def num_text(text, env):
    """Value of a rendered arithmetic expression (interpreter value text) under env.  SyntaxError: not an expression;
    _NoFold: it names something env does not define."""
    v = fold(ast.parse(text.strip(), mode='eval').body, env)
    if isinstance(v, Fraction) and v.denominator == 1:
        return int(v)
    return v


def check_s2k_codec(rep, prog, rid):
    ci = prog.cls('pgpy.packet.fields', 'String2Key')
    wr = ci.methods.get('__bytearray__')
    rd = ci.methods.get('parse')
    if wr is None or rd is None:
        raise AnalysisError('String2Key codec methods vanished')
    rep.saw(fn=wr)
    rep.saw(fn=rd)
    backing = count_backing(prog)
    for spec, fields in SPEC_FIELDS.items():
        ec = enum_const(prog, 'String2KeyType', spec)
        me = wr.params[0]
        bind = {'%s.specifier' % me: ec, '%s.usage' % me: Const(254), '%s.iv' % me: Sym('%s.iv' % me, nonnull=True)}
        ax = _active_axioms(prog, ci, wr)
        ax['%s.iv' % me] = True
        sc = Scenario(bind=dict(bind), axioms=ax, inline=lambda f: False)
        w = codec.writer_items(prog, wr, sc)
        if len(w) != 1 or w[0][1] is None:
            raise AnalysisError('String2Key.__bytearray__: %d paths for %s (decisions %s)' % (len(w), spec, [x[0].facts for x in w]))
        items = w[0][1]
        # each emitted item -> (field, width): one octet for everything but salt and iv; a property read through a getter that
        # only returns its backing attribute is that attribute (halg == _halg), the decoded count is NOT the coded octet
        wnames = []
        for it in items:
            if it[0] == 'BYTE' or (it[0] == 'INT' and it[1] == '1'):
                t, wd = (it[1] if it[0] == 'BYTE' else it[2]), '1'
            elif it[0] == 'SYM':
                t, wd = it[1], '*'
            else:
                t, wd = render_item(it), '?'
            if t.startswith(me + '.') and '.' not in t[len(me) + 1:] and t[len(me) + 1:].isidentifier():
                f = _plain_getter_field(ci, me, t[len(me) + 1:])
                t = 'self.%s' % f if f is not None else 'self.%s()' % t[len(me) + 1:]
            wnames.append((t, wd))

        def fld(n):
            return 'self.%s' % (backing if n == 'count' else _plain_getter_field(ci, me, n))
        exp_w = [('254', '1'), (fld('encalg'), '1'), ('String2KeyType.%s' % spec, '1')] + \
            [(fld(f), '*' if f == 'salt' else '1') for f in fields] + [(fld('iv'), '*')]
        rep.check(wnames == exp_w, rid, 'String2Key.__bytearray__', '%s: emits %s' % (spec, [n for n, _ in wnames]),
                  'S2K specifier %s must be written as usage, cipher, specifier, %s, iv (one octet each but salt and iv; the count as '
                  'its coded octet)' % (spec, ', '.join(fields)), where=wr.where, expected=exp_w, found=wnames, scenario=spec)
        # reader
        me = rd.params[0]
        ivp = rd.params[2] if len(rd.params) > 2 else 'iv'
        scr = Scenario(bind={'%s.specifier' % me: ec, '%s.usage' % me: Const(254)}, axioms=_active_axioms(prog, ci, rd),
                       args={ivp: Const(True)}, inline=lambda f: False, forward_stores=False, model_del=False)
        outs = Interp(prog, scr).run(rd)
        if len(outs) != 1:
            raise AnalysisError('String2Key.parse: %d paths for %s (decisions %s)' % (len(outs), spec, [s.facts for s in outs]))
        reads, problems = codec.reader_sequence(outs[0], rd.params[1])
        for kind, msg, line in problems:
            rep.violation(rid, 'String2Key.parse', '%s: %s' % (spec, msg), 'reader does not consume what it reads: %s' % msg,
                          where='%s:%d' % (rd.module.relpath, line), scenario=spec)
        fixed = [r for r in reads if r.kind.startswith('fixed')]
        rnames = [(r.target or '')[len(me) + 1:] if (r.target or '').startswith(me + '.') else (r.target or '') for r in fixed]
        # widths by value: the IV is one cipher block (block_size is in bits)
        rwidths = []
        for r in fixed:
            vals = []
            for bs in (64, 128):
                env = {'%s.encalg.block_size' % me: bs, '%s._encalg.block_size' % me: bs}
                vals.append(_int_text(r.width or '', env))
            if vals[0] is not None and vals[0] == vals[1]:
                rwidths.append(str(vals[0]))
            elif vals == [8, 16]:
                rwidths.append('block')
            else:
                rwidths.append(r.width)
        exp_r = ['usage', 'encalg', 'specifier'] + fields + ['iv']
        exp_wd = ['1', '1', '1'] + [{'halg': '1', 'salt': '8', 'count': '1'}[f] for f in fields] + ['block']
        rep.check(rnames == exp_r and rwidths == exp_wd, rid, 'String2Key.parse', '%s: reads %s widths %s' % (spec, rnames, rwidths),
                  'S2K specifier %s must be read as usage, cipher, specifier, %s, iv with the RFC widths (iv = one cipher block)'
                  % (spec, ', '.join(fields)),
                  where=rd.where, expected='%s / %s' % (exp_r, exp_wd), found='%s / %s' % (rnames, rwidths), scenario=spec)
    # salt width written by PGPy's own producers is 8 octets (checked at the entropy sites under C13)
    cp = ci.methods.get('__copy__')
    if cp is not None:
        rep.saw(fn=cp)
        me = cp.params[0]
        outs = Interp(prog, Scenario(inline=lambda f: False, forward_stores=False)).run(cp)
        for s in outs:
            if not (isinstance(s.ret, Obj) and s.ret.cls is ci):
                raise AnalysisError('String2Key.__copy__ does not return a locally built String2Key: %s' % render(s.ret))
            new = render(s.ret)
            got = [(p2[len(new) + 1:], v) for (p2, v, l, _) in s.stores if p2.startswith(new + '.') and p2[len(new) + 1:] in ('count', backing)]
            # the int setter of `count` takes the coded octet (C12.3): the copy must be fed the coded octet, whichever way
            ok = bool(got) and got[-1][1] == '%s.%s' % (me, backing)
            rep.check(ok, rid, 'String2Key.__copy__', 'count copied in coded form',
                      'a copy must carry the coded count octet, not the decoded value', where=cp.where,
                      expected='<copy>.count = self.%s' % backing, found=got)


RFC_DIGEST_OCTETS = {'MD5': 16, 'SHA1': 20, 'RIPEMD160': 20, 'SHA224': 28, 'SHA256': 32, 'SHA384': 48, 'SHA512': 64}


def check_digest_sizes(rep, prog, rid):
    """HashAlgorithm.digest_size: wherever it is answered from a literal / table instead of the hash object, the value must be the
    digest length of the algorithm (it decides how many S2K contexts are set up)."""
    ci = prog.cls('pgpy.constants', 'HashAlgorithm')
    g = (ci.find_plain_prop('digest_size') or {}).get('get') or ci.find_method('digest_size')
    if g is None:
        raise AnalysisError('HashAlgorithm.digest_size vanished')
    rep.saw(fn=g)
    me = g.params[0]
    members = ci.enum_members()
    seed = {}
    for k, v in members.items():
        if isinstance(v, int):
            seed['%s.%s' % (ci.name, k)] = v
            seed['%s.%s' % (me, k)] = v
    consts = class_constants(prog, ci, me, seed)
    for name, octets in sorted(RFC_DIGEST_OCTETS.items()):
        if name not in members:
            continue
        env = dict(consts)
        env[me] = members[name]
        env['%s.value' % me] = members[name]
        try:
            kind, got, _st = fold_fn(g.node, env)
        except _NoFold as ex:
            rep.ok(rid, 'HashAlgorithm.digest_size', '%s: read from the hash object (%s)' % (name, ex), scenario=name)
            continue
        rep.check(kind == 'return' and got == octets, rid, 'HashAlgorithm.digest_size', '%s -> %s' % (name, got if kind == 'return' else 'raise'),
                  'the digest length of %s is %d octets: a wrong table entry changes the number of S2K hash contexts (and every other use '
                  'of the digest length)' % (name, octets), where=g.where, expected=octets, found=got if kind == 'return' else 'raise', scenario=name)
