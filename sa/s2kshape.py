"""String2Key coded count (RFC 4880 3.7.1.3) and S2K specifier codec agreement (shared by C09.4 and C12.3/4)."""
import ast

from .interp import Interp, Scenario, Sym, Const, Bytes, render, render_items, merge_consts, render_item
from .loader import AnalysisError
from .sigdata import enum_const
from . import codec


class _NoFold(Exception):
    pass


def fold(node, env):
    """Constant folding of a closed integer expression by the checker's own evaluator (no repo code runs)."""
    if isinstance(node, ast.Constant) and isinstance(node.value, int):
        return node.value
    if isinstance(node, ast.Name) and node.id in env:
        return env[node.id]
    if isinstance(node, (ast.Attribute, ast.Subscript)):
        t = ast.unparse(node)
        if t in env:
            return env[t]
        if isinstance(node, ast.Subscript) and isinstance(node.value, ast.Dict):
            k = fold(node.slice, env)
            for kn, vn in zip(node.value.keys, node.value.values):
                if fold(kn, env) == k:
                    return fold(vn, env)
        raise _NoFold(t)
    if isinstance(node, ast.IfExp):
        return fold(node.body, env) if fold(node.test, env) else fold(node.orelse, env)
    if isinstance(node, ast.BinOp):
        a, b = fold(node.left, env), fold(node.right, env)
        op = type(node.op)
        table = {ast.Add: lambda: a + b, ast.Sub: lambda: a - b, ast.Mult: lambda: a * b, ast.FloorDiv: lambda: a // b,
                 ast.Mod: lambda: a % b, ast.LShift: lambda: a << b, ast.RShift: lambda: a >> b, ast.BitAnd: lambda: a & b,
                 ast.BitOr: lambda: a | b, ast.BitXor: lambda: a ^ b, ast.Pow: lambda: a ** b}
        if op not in table:
            raise _NoFold(ast.unparse(node))
        return table[op]()
    if isinstance(node, ast.UnaryOp) and isinstance(node.op, ast.USub):
        return -fold(node.operand, env)
    if isinstance(node, ast.Compare):
        left = fold(node.left, env)
        for opn, cn in zip(node.ops, node.comparators):
            b = fold(cn, env)
            a = left
            op = type(opn)
            tbl = {ast.Lt: a < b, ast.LtE: a <= b, ast.Gt: a > b, ast.GtE: a >= b, ast.Eq: a == b, ast.NotEq: a != b}
            if op not in tbl:
                raise _NoFold(ast.unparse(node))
            if not tbl[op]:
                return False
            left = b
        return True
    if isinstance(node, ast.BoolOp):
        vals = [fold(v, env) for v in node.values]
        return all(vals) if isinstance(node.op, ast.And) else any(vals)
    if isinstance(node, ast.UnaryOp) and isinstance(node.op, ast.Not):
        return not fold(node.operand, env)
    raise _NoFold(ast.unparse(node))


def check_count(rep, prog, rid):
    ci = prog.cls('pgpy.packet.fields', 'String2Key')
    prop = ci.props.get('count')
    if prop is None or prop.getter is None:
        raise AnalysisError('String2Key.count property vanished')
    g = prop.getter
    rep.saw(fn=g)
    rets = [n for n in ast.walk(g.node) if isinstance(n, ast.Return)]
    if len(rets) != 1:
        raise AnalysisError('String2Key.count getter: expected a single return')
    expr = rets[0].value
    bad = None
    try:
        for c in range(256):
            want = (16 + (c & 15)) << ((c >> 4) + 6)          # RFC 4880 3.7.1.3, EXPBIAS = 6
            got = fold(expr, {'self._count': c})
            if got != want:
                bad = (c, want, got)
                break
    except _NoFold as ex:
        raise AnalysisError('String2Key.count getter is not a closed arithmetic expression over self._count: %s' % ex)
    rep.check(bad is None, rid, 'String2Key.count', 'return %s' % ast.unparse(expr),
              'decoded count differs from RFC 4880 3.7.1.3 (16 + (c & 15)) << ((c >> 4) + 6)'
              + ('' if bad is None else ': c=%d gives %d, RFC gives %d' % (bad[0], bad[2], bad[1])),
              where=g.where, expected='(16 + (c & 15)) << ((c >> 4) + 6) for all 256 coded values', found=ast.unparse(expr))
    # setter: accepts exactly 0..255 and stores the coded octet
    setter = prop.setters.get('int')
    if setter is None:
        raise AnalysisError('String2Key.count int setter vanished')
    rep.saw(fn=setter)
    pname = setter.params[1]
    for val, want_raise in ((-1, True), (0, False), (255, False), (256, True)):
        sc = Scenario(args={pname: Const(val)}, inline=lambda f: False)
        outs = Interp(prog, sc).run(setter)
        raised = all(s.raised is not None for s in outs)
        stored = any(p == 'self._count' and v == repr(val) for s in outs for (p, v, l, _) in s.stores)
        ok = raised if want_raise else (stored and not any(s.raised for s in outs))
        rep.check(ok, rid, 'String2Key.count_int', 'value %d -> %s' % (val, 'raise' if raised else ('stored' if stored else 'dropped')),
                  'the coded count setter must accept exactly 0..255 and store the octet', where=setter.where,
                  expected='raise' if want_raise else 'self._count = %d' % val, found='raised=%s stored=%s' % (raised, stored),
                  scenario='val=%d' % val)


SPEC_FIELDS = {
    # RFC 4880 3.7.1.x: what follows the specifier octet
    'Simple': ['halg'],
    'Salted': ['halg', 'salt'],
    'Iterated': ['halg', 'salt', 'count'],
}


def check_s2k_codec(rep, prog, rid):
    ci = prog.cls('pgpy.packet.fields', 'String2Key')
    wr = ci.methods.get('__bytearray__')
    rd = ci.methods.get('parse')
    if wr is None or rd is None:
        raise AnalysisError('String2Key codec methods vanished')
    rep.saw(fn=wr)
    rep.saw(fn=rd)
    for spec, fields in SPEC_FIELDS.items():
        ec = enum_const(prog, 'String2KeyType', spec)
        bind = {'self.specifier': ec, 'self.usage': Const(254)}
        sc = Scenario(bind=dict(bind), axioms={'bool(self)': True, '(self.iv is not None)': True}, inline=lambda f: False)
        w = codec.writer_items(prog, wr, sc)
        if len(w) != 1 or w[0][1] is None:
            raise AnalysisError('String2Key.__bytearray__: %d paths for %s' % (len(w), spec))
        items = w[0][1]
        wnames = []
        for it in items:
            t = it[1] if it[0] in ('BYTE', 'SYM') else (it[2] if it[0] == 'INT' else render_item(it))
            wnames.append(t.replace('self._', 'self.').replace('self.', ''))
        exp_w = ['254', 'encalg', 'String2KeyType.%s' % spec] + fields + ['iv']
        rep.check(wnames == exp_w, rid, 'String2Key.__bytearray__', '%s: emits %s' % (spec, wnames),
                  'S2K specifier %s must be written as usage, cipher, specifier, %s, iv' % (spec, ', '.join(fields)), where=wr.where,
                  expected=exp_w, found=wnames, scenario=spec)
        # widths: every field but salt/iv is one octet
        for it in items:
            if it[0] == 'SYM' and it[1] not in ('self.salt', 'self.iv'):
                rep.violation(rid, 'String2Key.__bytearray__', '%s: %s' % (spec, render_item(it)), 'unexpected variable-width S2K field',
                              where=wr.where, scenario=spec)
        # reader
        scr = Scenario(bind={'self.specifier': ec, 'self.usage': Const(254)}, axioms={'bool(self)': True},
                       args={'iv': Const(True)}, inline=lambda f: False, forward_stores=False, model_del=False)
        outs = Interp(prog, scr).run(rd)
        if len(outs) != 1:
            raise AnalysisError('String2Key.parse: %d paths for %s' % (len(outs), spec))
        reads, problems = codec.reader_sequence(outs[0], 'packet')
        for kind, msg, line in problems:
            rep.violation(rid, 'String2Key.parse', '%s: %s' % (spec, msg), 'reader does not consume what it reads: %s' % msg,
                          where='%s:%d' % (rd.module.relpath, line), scenario=spec)
        rnames = [(r.target or '').replace('self.', '') for r in reads if r.kind.startswith('fixed')]
        rwidths = [r.width for r in reads if r.kind.startswith('fixed')]
        exp_r = ['usage', 'encalg', 'specifier'] + fields + ['iv']
        exp_wd = ['1', '1', '1'] + [{'halg': '1', 'salt': '8', 'count': '1'}[f] for f in fields] + ['(self.encalg.block_size // 8)']
        rep.check(rnames == exp_r and rwidths == exp_wd, rid, 'String2Key.parse', '%s: reads %s widths %s' % (spec, rnames, rwidths),
                  'S2K specifier %s must be read as usage, cipher, specifier, %s, iv with the RFC widths' % (spec, ', '.join(fields)),
                  where=rd.where, expected='%s / %s' % (exp_r, exp_wd), found='%s / %s' % (rnames, rwidths), scenario=spec)
    # salt width written by PGPy's own producers is 8 octets (checked at the entropy sites under C13)
    cp = ci.methods.get('__copy__')
    if cp is not None:
        src = ast.unparse(cp.node)
        rep.check('s2k.count = self._count' in src.replace('  ', ' '), rid, 'String2Key.__copy__', 'count copied in coded form',
                  'a copy must carry the coded count octet, not the decoded value', where=cp.where)
