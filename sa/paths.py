"""E1b - path-exact exploration of search loops / try statements, and truth-table helpers over path facts.

`sa.interp.Frame` summarises a loop it cannot unroll into one state (facts taken inside the body are dropped, break /
continue / for-else are merged).  That is right for layouts, but a *search loop* ("try the candidates until one works,
raise when none did") is decided by exactly what the summary forgets.  `PathFrame` explores such loops path by path:

  * for x in <collection>:   zero or more iterations that run to their end / `continue`, then either exhaustion (the
    `else` arm runs) or an iteration that leaves by break / return / raise.  The element of round r is named `$k` (r = 0)
    or `$kr<r+1>`, so values taken from different elements never compare equal; `State.bound` maps each name to the
    collection.  A filter fused into the collection text (`for x in (y for y in C if f(y))`, `cands = [..]; for x in cands`)
    becomes a path fact of the iteration, exactly like `if not f(x): continue` in the body.  Rounds are explored until the
    set of loop-head states (environment and call set, modulo the round suffix) stops growing.
  * x = helper(..) / helper(..) / return helper(..) at statement level, for helpers selected by `path_inline`: the callee is
    explored with the same frame on forks of the caller's state, so its decisions and loop rounds are on the caller's path
    (the ordinary interpreter joins a callee's paths into one value).
  * try:   an exception may leave the body before any of its top-level statements; a handler is entered from the state
    before each of them (the calls of the statement that raised are NOT on that path: "call on the path" means "completed").

Events added to `State.events`: ('iter', name, collection text, line) and ('exhausted', base name, collection text, line).
Facts added: the fused filter of each iteration, and (collection text, empty?) - `('expr', collection text)` is false on the
zero-iteration path and true once an iteration has started.

The helpers below evaluate recorded decisions (`State.facts`, boolean skeletons) under assumptions instead of comparing
their text: `implied` (a property must hold on the path because some decision would have gone the other way otherwise),
`consistent` (could the path be taken under this valuation of the named atoms), `skel_from_text` (skeleton of a rendered
condition such as the filter of an EACH term).
"""
import ast
import re

from .interp import Frame, OPS, Sym, Obj, Const, ListV, render, _clone
from .loader import AnalysisError, FunctionInfo, dotted
from . import guards


# ------------------------------------------------------------------------------------------------ frame
BV = r'\$\d+(?:\.\d+)?(?:r\d+)?'      # a canonical bound-variable name as PathFrame writes it ($k, $d.k, with a round suffix)


class PathFrame(Frame):
    MAX_ROUNDS = 4
    path_inline = None       # callable(FunctionInfo) -> bool: helpers whose statement-level calls are followed path by path

    # ------------------------------------------------------------------ statement-level calls of helpers, path by path
    def _helper(self, call, st):
        """(FunctionInfo, receiver value) when `call` goes to a helper the policy wants followed, else None."""
        if self.path_inline is None or self.depth >= self.sc.max_depth or not isinstance(call, ast.Call):
            return None
        if any(isinstance(a, ast.Starred) for a in call.args) or any(k.arg is None for k in call.keywords):
            return None
        f = call.func
        if isinstance(f, ast.Attribute):
            recv = self.ev(f.value, st, quiet=True)
            cls = getattr(recv, 'cls', None) if isinstance(recv, (Sym, Obj)) else None
            if cls is None:
                return None
            fi = cls.find_method(f.attr)
            if fi is None or cls.find_prop(f.attr) is not None or cls.find_plain_prop(f.attr) is not None:
                return None
            if any(dotted(d) in ('staticmethod', 'classmethod') for d in fi.node.decorator_list):
                return None
            return (fi, recv) if self.path_inline(fi) else None
        if isinstance(f, ast.Name) and f.id not in st.env:
            r = self.prog.lookup(self.module, f.id)
            if isinstance(r, FunctionInfo) and r.cls is None and self.path_inline(r):
                return r, None
        return None

    def _call_paths(self, call, st, hit):
        """Run the helper on forks of `st`; -> [(caller state, status, returned value)] with status normal / raise."""
        fi, recv = hit
        args = [self.ev(a, st) for a in call.args]
        kwargs = {k.arg: self.ev(k.value, st) for k in call.keywords}
        pos = list(fi.params)
        env = {}
        if recv is not None and pos:
            first = pos.pop(0)
            env[first] = recv
            rt = render(recv)
            for k, v in st.env.items():
                if k.startswith(rt + '.'):
                    env[first + k[len(rt):]] = v
        binding = dict(zip(pos, args))
        binding.update(kwargs)
        defaults = fi.node.args.defaults
        for name, d in zip(pos[len(pos) - len(defaults):], defaults):
            if name not in binding:
                try:
                    binding[name] = Const(ast.literal_eval(d))
                except Exception:
                    binding[name] = Sym(ast.unparse(d))
        for name in pos:
            env[name] = binding.get(name, Sym(name))
        for a in fi.node.args.kwonlyargs:
            env[a.arg] = binding.get(a.arg, Sym(a.arg))
        callee = st.fork()
        caller_env = callee.env
        callee.env = env
        st.events.append(('call', fi.qualname, [render(a) for a in args], {k: render(v) for k, v in kwargs.items()}, call.lineno))
        callee.events = list(st.events)
        fr = type(self)(self.I, fi, self.depth + 1)
        fr.path_inline = self.path_inline
        outs = []
        for s, status in fr.block(fi.node.body, callee):
            val = s.ret if status == 'return' else Const(None)
            s.env = {k: _clone(v) for k, v in caller_env.items()}
            s.ret = None
            outs.append((s, 'raise' if status == 'raise' else 'normal', val))
        return outs

    def st_Assign(self, node, st):
        hit = self._helper(node.value, st)
        if hit is None:
            return Frame.st_Assign(self, node, st)
        outs = []
        for s, status, val in self._call_paths(node.value, st, hit):
            if status == 'normal':
                for t in node.targets:
                    self.assign(t, val, s, node)
            outs.append((s, status))
        return outs

    def st_Expr(self, node, st):
        hit = self._helper(node.value, st)
        if hit is None:
            return Frame.st_Expr(self, node, st)
        return [(s, status) for s, status, _ in self._call_paths(node.value, st, hit)]

    def st_Return(self, node, st):
        hit = self._helper(node.value, st) if node.value is not None else None
        if hit is None:
            return Frame.st_Return(self, node, st)
        outs = []
        for s, status, val in self._call_paths(node.value, st, hit):
            if status == 'normal':
                s.ret = val
                s.events.append(('return', render(val), node.lineno))
                status = 'return'
            outs.append((s, status))
        return outs

    # ------------------------------------------------------------------ loops and try

    def _round_name(self, base, rnd):
        return base if rnd == 0 else '%sr%d' % (base, rnd + 1)

    def _sig(self, st, base, with_facts=False):
        def n(t):
            return re.sub(re.escape(base) + r'r\d+', base, t)
        def widen(v):
            # accumulators: a list that only grows round after round is compared by the set of its distinct elements
            if isinstance(v, ListV):
                return '%s{%s}' % (v.kind, ', '.join(sorted(set(n(render(e)) for e in v.elems))))
            return n(render(v))
        env = tuple(sorted((k, widen(v)) for k, v in st.env.items()))
        calls = frozenset((n(c[0]), tuple(n(a) for a in c[1]), tuple(sorted((k, n(v)) for k, v in c[2].items()))) for c in st.calls
                          if c[0][:1] not in '[({')        # (method calls on a growing local list / tuple / set literal)
        if with_facts:
            return env, calls, tuple((f[0], f[1]) for f in st.facts)
        return env, calls

    def st_For(self, node, st):
        base = self._bname(node)
        vals, colltext = self._iter_values(node.iter, st, base)
        if vals is not None:
            return Frame.st_For(self, node, st)
        outs = []
        heads = [st]
        seen = set()
        for rnd in range(self.MAX_ROUNDS + 1):
            nxt = []
            for h in heads:
                ex = h.fork()
                ex.events.append(('exhausted', base, colltext, node.lineno))
                if rnd == 0:
                    # no iteration at all <=> the (filtered) collection is empty; the first iteration knows it is not
                    ex.facts.append((colltext, False, ('expr', colltext)))
                    h.facts.append((colltext, True, ('expr', colltext)))
                outs.extend(self.block(node.orelse, ex))
                sig = self._sig(h, base)
                if sig in seen:
                    continue
                seen.add(sig)
                if rnd == self.MAX_ROUNDS:
                    raise AnalysisError('loop over %s in %s: head states do not converge' % (colltext, self.fi.qualname))
                name = self._round_name(base, rnd)
                ctext = re.sub(re.escape(base) + r'(?!\d)(?!r\d)(?!\.\d)', name, colltext)
                coll, _, filt = ctext.partition(' if ')
                self._assign_loopvars(node.target, h, node, name)
                h.bound[name] = coll
                h.events.append(('iter', name, ctext, node.lineno))
                if filt:
                    h.facts.append((filt, True, skel_from_text(filt)))
                for s, status in self.block(node.body, h):
                    if status == 'break':
                        outs.append((s, 'normal'))
                    elif status in ('normal', 'continue'):
                        nxt.append(s)
                    else:
                        outs.append((s, status))
            heads = nxt
            if not heads:
                break
        return outs

    def st_Try(self, node, st):
        snaps = []
        cur = [(st, 'normal')]
        for stmt in node.body:
            nxt = []
            for s, status in cur:
                if status != 'normal':
                    nxt.append((s, status))
                    continue
                snaps.append(s.fork())
                nxt.extend(self.stmt(stmt, s))
            cur = nxt
        outs = []
        for s, status in cur:
            if status == 'normal':
                outs.extend(self.block(node.orelse, s))
            elif status == 'raise' and node.handlers:
                s2 = s.fork()
                s2.raised = None
                snaps.append(s2)
            else:
                outs.append((s, status))
        seen = set()
        for sn in snaps:
            sig = self._sig(sn, '$', with_facts=True)
            if sig in seen:
                continue
            seen.add(sig)
            for h in node.handlers:
                s2 = sn.fork()
                s2.facts.append(('except %s' % (self.text(h.type, s2) if h.type is not None else ''), True, None))
                if h.name:
                    s2.env[h.name] = Sym(h.name)
                outs.extend(self.block(h.body, s2))
        if node.finalbody:
            fin = []
            for s, status in outs:
                for s3, st3 in self.block(node.finalbody, s):
                    fin.append((s3, status if st3 == 'normal' else st3))
            outs = fin
        return outs


# ------------------------------------------------------------------------------------------------ texts and skeletons
_B = '_B_'


def _parse(text):
    try:
        return ast.parse(text.replace('$', _B), mode='eval').body
    except (SyntaxError, ValueError):
        return None


def _back(node):
    return ast.unparse(node).replace(_B, '$')


def canon_text(t):
    """Spelling-independent form of a rendered expression text (redundant parentheses, spacing)."""
    if not isinstance(t, str):
        return t
    n = _parse(t)
    return _back(n) if n is not None else t.strip()


def skel_from_text(text):
    """Boolean skeleton (same shape as Frame.cond_skel) of a rendered condition text."""
    n = _parse(text)
    if n is None:
        return ('expr', text)

    def rec(n):
        if isinstance(n, ast.BoolOp):
            return ('or' if isinstance(n.op, ast.Or) else 'and', [rec(v) for v in n.values])
        if isinstance(n, ast.UnaryOp) and isinstance(n.op, ast.Not):
            return ('not', rec(n.operand))
        if isinstance(n, ast.Constant) and isinstance(n.value, bool):
            return ('const', n.value)
        if isinstance(n, ast.Compare) and len(n.ops) == 1:
            return ('cmp', OPS[type(n.ops[0])], _back(n.left), _back(n.comparators[0]))
        if isinstance(n, ast.Call) and not n.keywords:
            return ('call', _back(n.func), [_back(a) for a in n.args])
        return ('expr', _back(n))
    return rec(n)


# ------------------------------------------------------------------------------------------------ atoms
def eq_atom(atom, a, b):
    """atom is an (in)equality of the two given terms: True when `atom true` means EQUAL, False when it means DIFFERENT,
    None when the atom is about something else."""
    eq = guards.equality_of(atom)
    if eq is None:
        return None
    l, r = canon_text(eq[0]), canon_text(eq[1])
    a, b = canon_text(a), canon_text(b)
    if (l, r) == (a, b) or (l, r) == (b, a):
        return eq[2]
    return None


def isinstance_atom(atom, obj, types):
    """atom is isinstance(obj, T) with every alternative of T among `types` (a narrower test is still that test)."""
    if atom[0] != 'call' or atom[1] != 'isinstance' or len(atom[2]) != 2 or canon_text(atom[2][0]) != canon_text(obj):
        return False
    n = _parse(atom[2][1])
    if n is None:
        return False
    alts = n.elts if isinstance(n, ast.Tuple) else [n]
    names = [ast.unparse(x).split('.')[-1] for x in alts]
    return bool(names) and all(x in types for x in names)


def truth_atom(atom, text):
    """atom is the truth value of `text`: True for `if text`, None otherwise (negation lives in the skeleton)."""
    if atom[0] == 'expr' and canon_text(atom[1]) == canon_text(text):
        return True
    if atom[0] == 'call' and atom[1] == 'bool' and len(atom[2]) == 1 and canon_text(atom[2][0]) == canon_text(text):
        return True
    return None


# ------------------------------------------------------------------------------------------------ decisions under assumptions
def implied(facts, value_if_false):
    """The decisions recorded on a path force a property to hold: `value_if_false(atom)` gives the value each skeleton atom
    would have if the property did NOT hold (None = unrelated atom); if some decision would then have gone the other way,
    the path is only taken when the property holds."""
    for f in facts:
        if len(f) < 3 or f[2] is None:
            continue
        v = guards.eval_skel(f[2], value_if_false)
        if v is not None and v != f[1]:
            return True
    return False


def consistent(facts, valuation):
    """Could the path be taken when the atoms have the values `valuation(atom)` (None = unknown)?"""
    for f in facts:
        if len(f) < 3 or f[2] is None:
            continue
        v = guards.eval_skel(f[2], valuation)
        if v is not None and v != f[1]:
            return False
    return True


def positional(call, names):
    """Argument texts of a recorded call (func, args, kwargs, ...) in the order of the parameter names; None when the call
    cannot be laid out (unknown keyword, missing argument, star arguments)."""
    args, kw = list(call[1]), dict(call[2])
    if any(a.startswith('*') for a in args) or '**' in kw or len(args) > len(names):
        return None
    for n in names[len(args):]:
        if n in kw:
            args.append(kw.pop(n))
        else:
            break
    if kw:
        return None
    return args


def call_text(call):
    """The text the interpreter gives to the value of an opaque call."""
    return '%s(%s)' % (call[0], ', '.join(list(call[1]) + ['%s=%s' % kv for kv in call[2].items()]))
