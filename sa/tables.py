"""E6 - dispatch tables read as data (dict/set literals inside functions and class bodies)."""
import ast

from .loader import AnalysisError, dotted


def dict_literals(fn_node):
    """name -> ast.Dict for every `name = {...}` assignment in a function body."""
    out = {}
    for n in ast.walk(fn_node):
        if isinstance(n, ast.Assign) and len(n.targets) == 1 and isinstance(n.targets[0], ast.Name) and isinstance(n.value, ast.Dict):
            out[n.targets[0].id] = n.value
    return out


def key_text(k):
    if isinstance(k, ast.Tuple):
        return tuple(key_text(e) for e in k.elts)
    if isinstance(k, ast.Constant):
        return k.value
    d = dotted(k)
    return d if d is not None else ast.unparse(k)


def table(fn_node, name=None):
    """Return {key_text: value_text} of the (only / named) dict literal of a function."""
    ds = dict_literals(fn_node)
    if name is None:
        if len(ds) != 1:
            raise AnalysisError('expected exactly one dict literal, found %s' % sorted(ds))
        name = next(iter(ds))
    if name not in ds:
        raise AnalysisError('dispatch table %s vanished' % name)
    d = ds[name]
    out = {}
    for k, v in zip(d.keys, d.values):
        out[key_text(k)] = dotted(v) or ast.unparse(v)
    return out


def set_members(node):
    """Members (dotted text) of a set/list/tuple literal."""
    if isinstance(node, (ast.Set, ast.List, ast.Tuple)):
        return [dotted(e) or ast.unparse(e) for e in node.elts]
    return None


def returned_set(fn):
    """For `return self in {A, B}`: the member list."""
    for n in ast.walk(fn.node):
        if isinstance(n, ast.Return) and isinstance(n.value, ast.Compare) and len(n.value.ops) == 1 and \
                isinstance(n.value.ops[0], ast.In):
            m = set_members(n.value.comparators[0])
            if m is not None:
                return m
    return None


def _keymaterial_eval(prog):
    """Evaluate the `pkalg` setter of the v4 key packet classes at every member of PubKeyAlgorithm with the checker's own
    finite-point evaluator (sa.ceval; nothing of the repository runs) and read off the class of the object it leaves in
    `keymaterial`.  How the setter spells its dispatch - a dict literal keyed by (public?, algorithm), a class-level table of
    (public class, private class) pairs behind a helper, an if-chain - is irrelevant: only the class chosen at each point counts."""
    from . import ceval
    pub = prog.cls('pgpy.packet.packets', 'PubKeyV4')
    priv = prog.cls('pgpy.packet.packets', 'PrivKeyV4')
    enum = prog.cls('pgpy.constants', 'PubKeyAlgorithm')
    if pub is None or priv is None or enum is None:
        raise AnalysisError('PubKeyV4 / PrivKeyV4 / PubKeyAlgorithm vanished')
    f = pub.find_method('pkalg_int')
    if f is None:
        raise AnalysisError('PubKeyV4.pkalg_int vanished')
    members = sorted((n, v) for n, v in enum.enum_members().items() if isinstance(v, int) and not isinstance(v, bool))
    if len(members) < 8:
        raise AnalysisError('PubKeyAlgorithm has only %d integer members' % len(members))
    ev = ceval.Evaluator(prog)
    out = {}
    for public, ci in ((True, pub), (False, priv)):
        g = ci.find_method('pkalg_int')
        if g is None:
            raise AnalysisError('%s.pkalg_int vanished' % ci.name)
        for name, val in members:
            o = ceval.Obj(ci, {})
            try:
                ev.reset()
                ev.call(g, o, (val,))
            except (ceval.NoEval, ceval.Raised, ceval.Diverged) as e:
                raise AnalysisError('%s.pkalg setter cannot be evaluated at %s: %s' % (ci.name, name, e))
            km = o.attrs.get('keymaterial')
            if not isinstance(km, ceval.Obj):
                raise AnalysisError('%s.pkalg setter leaves no key material object at %s (%r)' % (ci.name, name, km))
            out[(public, name)] = km.cls.name
    return f, out


def keymaterial_fallbacks(prog):
    """{public?: class name} - the container the `pkalg` setter falls back to for an algorithm it has no key material class
    for (read at PubKeyAlgorithm.Invalid, the enum's own marker for that case)."""
    _, full = _keymaterial_eval(prog)
    if (True, 'Invalid') not in full or (False, 'Invalid') not in full:
        raise AnalysisError('PubKeyAlgorithm.Invalid vanished: cannot tell the fallback key material class')
    return {True: full[(True, 'Invalid')], False: full[(False, 'Invalid')]}


def keymaterial_table(prog):
    """(public?, algorithm member) -> class name: the key material class the PubKeyV4 / PrivKeyV4 `pkalg` setter chooses for
    each algorithm it implements (the fallback container for unimplemented algorithms is left out, see keymaterial_fallbacks)."""
    f, full = _keymaterial_eval(prog)
    fb = keymaterial_fallbacks(prog)
    out = {k: v for k, v in full.items() if v != fb[k[0]]}
    if len(out) < 12:
        raise AnalysisError('key-material dispatch implements only %d (public?, algorithm) points' % len(out))
    return f, out
