"""E6 - dispatch tables read as data (dict/set literals inside functions and class bodies)."""
import ast

from .loader import AnalysisError, dotted


def dict_literals(fn_node):
    """name -> ast.Dict for every `name = {...}` assignment in a function body."""
    out = {}
    for n in ast.walk(fn_node):
        if isinstance(n, ast.Assign) and len(n.targets) == 1 and isinstance(n.targets[0], ast.Name) and isinstance(n.value, ast.Dict):
            out[n.targets[0].id] = n.value
    return out


def key_text(k):
    if isinstance(k, ast.Tuple):
        return tuple(key_text(e) for e in k.elts)
    if isinstance(k, ast.Constant):
        return k.value
    d = dotted(k)
    return d if d is not None else ast.unparse(k)


def table(fn_node, name=None):
    """Return {key_text: value_text} of the (only / named) dict literal of a function."""
    ds = dict_literals(fn_node)
    if name is None:
        if len(ds) != 1:
            raise AnalysisError('expected exactly one dict literal, found %s' % sorted(ds))
        name = next(iter(ds))
    if name not in ds:
        raise AnalysisError('dispatch table %s vanished' % name)
    d = ds[name]
    out = {}
    for k, v in zip(d.keys, d.values):
        out[key_text(k)] = dotted(v) or ast.unparse(v)
    return out


def set_members(node):
    """Members (dotted text) of a set/list/tuple literal."""
    if isinstance(node, (ast.Set, ast.List, ast.Tuple)):
        return [dotted(e) or ast.unparse(e) for e in node.elts]
    return None


def returned_set(fn):
    """For `return self in {A, B}`: the member list."""
    for n in ast.walk(fn.node):
        if isinstance(n, ast.Return) and isinstance(n.value, ast.Compare) and len(n.value.ops) == 1 and \
                isinstance(n.value.ops[0], ast.In):
            m = set_members(n.value.comparators[0])
            if m is not None:
                return m
    return None


def keymaterial_table(prog):
    """(public?, algorithm member) -> class name, from PubKeyV4.pkalg_int."""
    ci = prog.cls('pgpy.packet.packets', 'PubKeyV4')
    f = ci.methods.get('pkalg_int')
    if f is None:
        raise AnalysisError('PubKeyV4.pkalg_int vanished')
    t = table(f.node)
    out = {}
    for k, v in t.items():
        if not (isinstance(k, tuple) and len(k) == 2 and isinstance(k[0], bool)):
            raise AnalysisError('unexpected key %r in key-material table' % (k,))
        out[(k[0], k[1].split('.')[-1])] = v
    return f, out
