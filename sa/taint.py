"""E4 - provenance / taint helpers over the interpreter's normalised value texts."""
import re

ENTROPY_PATTERNS = [
    r'^os\.urandom\((?P<n>.+)\)$',
    r'^(?P<alg>.+)\.gen_iv\(\)$',
    r'^(?P<alg>.+)\.gen_key\(\)$',
    r'^x25519\.X25519PrivateKey\.generate\(\)$',
    r'^ed25519\.Ed25519PrivateKey\.generate\(\)$',
    r'^ec\.generate_private_key\((?P<curve>.+), default_backend\(\)\)$',
    r'^ec\.generate_private_key\((?P<curve>.+)\)$',
    r'^rsa\.generate_private_key\(.+\)$',
    r'^dsa\.generate_private_key\(.+\)$',
]


def entropy_call(text):
    """Match object if `text` is, as a whole, a call of an entropy source."""
    t = text.strip()
    for p in ENTROPY_PATTERNS:
        m = re.match(p, t)
        if m and _balanced(t) and all(_balanced(g) for g in m.groups() if g):
            return m
    return None


def _balanced(s):
    d = 0
    for ch in s:
        if ch in '([{':
            d += 1
        elif ch in ')]}':
            d -= 1
            if d < 0:
                return False
    return d == 0


def mentions(text, name):
    return re.search(r'(?<![A-Za-z0-9_.])%s(?![A-Za-z0-9_])' % re.escape(name), text) is not None


def strip_calls(text, allowed):
    """Remove every `callee(...)` whose callee text ends with one of `allowed` (balanced), so what remains is the part of
    the value that is NOT protected by an encrypting call."""
    out = text
    changed = True
    while changed:
        changed = False
        for name in allowed:
            for m in re.finditer(r'(?<![A-Za-z0-9_])((?:[A-Za-z_][A-Za-z0-9_\[\]\'"]*\.)*%s)\(' % re.escape(name), out):
                start = m.start()
                j = m.end()
                depth = 1
                while j < len(out) and depth:
                    if out[j] in '([{':
                        depth += 1
                    elif out[j] in ')]}':
                        depth -= 1
                    j += 1
                if depth == 0:
                    out = out[:start] + '<ENC>' + out[j:]
                    changed = True
                    break
            if changed:
                break
    return out


def leaks(state, name, allowed_calls, ignore_targets=()):
    """Places where `name` escapes on this path other than through an allowed (encrypting) call:
       attribute stores, |= , return value, yields, and calls that are not in `allowed_calls`."""
    out = []
    for path, val, line, _ in state.stores:
        if path in ignore_targets:
            continue
        if mentions(strip_calls(val, allowed_calls), name):
            out.append(('store', '%s = %s' % (path, val), line))
    for ev in state.events:
        if ev[0] == 'ior' and (mentions(ev[1], name) or mentions(strip_calls(ev[2], allowed_calls), name)):
            out.append(('ior', '%s |= %s' % (ev[1], ev[2]), ev[3]))
        if ev[0] == 'return' and mentions(strip_calls(ev[1], allowed_calls), name):
            out.append(('return', 'return %s' % ev[1], ev[2]))
        if ev[0] == 'yield' and mentions(strip_calls(ev[1], allowed_calls), name):
            out.append(('yield', 'yield %s' % ev[1], ev[2]))
    for ft, args, kw, line, node in state.calls:
        base = ft.split('.')[-1]
        if base in allowed_calls or ft in allowed_calls:
            continue
        allargs = list(args) + list(kw.values())
        if any(mentions(strip_calls(a, allowed_calls), name) for a in allargs):
            out.append(('call', '%s(%s)' % (ft, ', '.join(allargs)), line))
    return out
