"""E4 - provenance / taint helpers over the interpreter's normalised value texts.

Everything here works on *values* (the interpreter's rendered terms), never on source text:
  * run_roles        interpret a function with its parameters bound by POSITION to role names chosen by the rule, and locally
                     constructed objects named after their class - local / parameter names of the source do not reach the texts
  * norm_term        spelling-independent form of a byte term (single constant octets are constants, adjacent constants merge)
  * split_items / concat_parts / split_args   structure of a rendered term
  * int_equiv        a rendered integer expression equals a reference function on sample points (checker-side folding)
  * BoolFn           truth-table view of a rendered condition (De Morgan, operand order, != vs not == do not matter)
  * entropy_call / leaks / strip_calls         entropy classifier and "escapes other than through an encrypting call"
"""
import ast
import itertools
import re

from .interp import Interp, Scenario, Sym, Const, Bytes, ListV, Obj, render
from .loader import AnalysisError, dotted

noinline = lambda f: False  # noqa: E731


# ------------------------------------------------------------------------------------------------ role binding
def run_roles(prog, fi, roles, vararg=None, kwarg=None, args=None, **sc):
    """Interpret `fi` with its positional parameters named by `roles` (receiver first for methods).

    roles[i] becomes the symbol of the i-th positional parameter whatever it is called in the source; `args` maps a ROLE to
    a Val (scenario facts about a parameter); `vararg` is a list of role names for the elements of *args; `kwarg` the role of
    **kwargs.  Returns the final states.  Objects constructed locally are named <Class> / <Class#k> (canonical_objs)."""
    params = list(fi.params)
    if len(params) < len(roles):
        raise AnalysisError('%s: signature changed (%d positional parameters, %d expected)' % (fi.qualname, len(params), len(roles)))
    node = fi.node
    decs = [dotted(d) for d in node.decorator_list]
    is_method = fi.cls is not None and 'staticmethod' not in decs
    sc.setdefault('inline', noinline)
    sc.setdefault('canonical_objs', True)
    sc.setdefault('extended', True)
    scen = Scenario(**sc)
    overrides = dict(args or {})
    call_args = {}
    self_val = None
    rl = list(roles)
    if is_method and params:
        params.pop(0)
        first = rl.pop(0) if rl else 'self'
        if 'classmethod' not in decs:
            self_val = overrides.get(first) or Sym(first, cls=scen.self_cls or fi.cls, nonnull=True)
    for name, role in zip(params, rl):
        call_args[name] = overrides.get(role) or Sym(role)
    # parameters the rule knows nothing about (added by a refactoring, never passed by the existing callers) hold their default
    a = node.args
    pos_all = [x.arg for x in a.posonlyargs + a.args]
    dflt = dict(zip(pos_all[len(pos_all) - len(a.defaults):], a.defaults)) if a.defaults else {}
    dflt.update({x.arg: d for x, d in zip(a.kwonlyargs, a.kw_defaults) if d is not None})
    for name, d in dflt.items():
        if name in call_args or name in params[:len(rl)]:
            continue
        if _passed_somewhere(prog, fi, name, pos_all.index(name) - (1 if is_method else 0) if name in pos_all else None):
            continue            # some caller does pass it: it stays an unknown
        if isinstance(d, ast.Constant):
            call_args[name] = Bytes([('C', d.value)]) if isinstance(d.value, bytes) else Const(d.value)
        elif dotted(d) is not None:
            call_args[name] = Sym(dotted(d))
    if node.args.vararg is not None and vararg is not None:
        call_args['*'] = ListV([overrides.get(r) or Sym(r) for r in vararg], 'tuple')
    if node.args.kwarg is not None and kwarg is not None:
        call_args['**'] = Sym(kwarg)
    return Interp(prog, scen).run(fi, self_val=self_val, args=call_args)


def _passed_somewhere(prog, fi, name, index):
    """Does any call of a function with fi's name in the package pass parameter `name` (by keyword, by position `index`, or through
    * / ** arguments)?"""
    cache = prog.__dict__.setdefault('_calls_by_name', {})
    if fi.name not in cache:
        calls = []
        for m in prog.modules.values():
            for n in ast.walk(m.tree):
                if isinstance(n, ast.Call):
                    f = n.func
                    fn = f.attr if isinstance(f, ast.Attribute) else (f.id if isinstance(f, ast.Name) else None)
                    if fn is not None:
                        cache.setdefault(fn, []).append(n)
        cache.setdefault(fi.name, calls)
    ndefs = sum(1 for f in prog.all_functions() if f.name == fi.name)
    total = len(fi.params) - (1 if fi.cls is not None and 'staticmethod' not in [dotted(d) for d in fi.node.decorator_list] else 0)
    for c in cache.get(fi.name, []):
        if any(k.arg == name for k in c.keywords):
            return True
        star = any(k.arg is None for k in c.keywords) or any(isinstance(a, ast.Starred) for a in c.args)
        if star and ndefs == 1:
            return True         # the only function of that name, called with * / ** arguments: it may receive anything
        npos = sum(1 for a in c.args if not isinstance(a, ast.Starred))
        if index is not None and index < npos <= total and not (star and ndefs > 1):
            return True
    return False


def objects(state):
    """{canonical object name: Obj} for the objects constructed on this path."""
    return {v.name: v for v in state.env.values() if isinstance(v, Obj)}


def obj_of_class(state, text, *class_names):
    """Is `text` the name of a locally constructed object whose class (or a base) is one of class_names?"""
    o = objects(state).get(text)
    if o is None or o.cls is None:
        return False
    have = {c.name for c in o.cls.mro()}
    return any(n in have for n in class_names)


def expand_objs(state, text):
    """Replace names of locally constructed objects by their constructor text (for value objects such as MPI(x))."""
    objs = objects(state)
    for _ in range(3):
        new = re.sub(r'<[A-Za-z_][A-Za-z0-9_]*(?:#\d+)?>', lambda m: objs[m.group(0)].text if m.group(0) in objs else m.group(0), text)
        if new == text:
            break
        text = new
    return text


def bind_call(call, names):
    """{parameter name: argument text} of a recorded call, positional and keyword arguments alike (names: the callee's parameters in
    order, without the receiver).  Surplus positional arguments are returned under '*'."""
    pos, kw = list(call[1]), dict(call[2])
    out = dict(zip(names, pos))
    if len(pos) > len(names):
        out['*'] = pos[len(names):]
    for k, v in kw.items():
        out['!dup' if k in out else k] = v
    return out


def call_text(call):
    """The text the interpreter gives the result of an opaque call."""
    return '%s(%s)' % (call[0], ', '.join(list(call[1]) + ['%s=%s' % kv for kv in call[2].items()]))


def calls_named(state, name):
    """Recorded calls of the function `name`, however it was reached (bare name or module.name)."""
    return [c for c in state.calls if c[0] == name or c[0].endswith('.' + name)]


def draws(state, suffix):
    """Calls of an entropy source on this path (by the last component(s) of the callee text)."""
    return [c for c in state.calls if c[0] == suffix or c[0].endswith('.' + suffix)]


# ------------------------------------------------------------------------------------------------ term structure
def _one_octet_ints(t):
    """INT(1;x) and LEN(1;x) are single octets: BYTE(x) / BYTE(len(x))."""
    for head, fmt in (('INT(1;', 'BYTE(%s)'), ('LEN(1;', 'BYTE(len(%s))')):
        pos = 0
        while True:
            i = t.find(head, pos)
            if i < 0:
                break
            if i > 0 and (t[i - 1].isalnum() or t[i - 1] == '_'):
                pos = i + 1
                continue
            j, d = i + len(head), 1
            while j < len(t) and d:
                d += t[j] in '([{'
                d -= t[j] in ')]}'
                j += 1
            if d:
                break
            t = t[:i] + fmt % t[i + len(head):j - 1] + t[j:]
            pos = i + 1
    return t


def _len_relative_slices(t):
    """SLICE(x;len(x) - k;) is SLICE(x;-k;), SLICE(x;a;len(x) - k) is SLICE(x;a;-k), SLICE(x;a;len(x)) is SLICE(x;a;)  (in-bounds reading)."""
    from .interp import lin_parse
    pos = 0
    while True:
        i = t.find('SLICE(', pos)
        if i < 0:
            return t
        j, d = i + 6, 1
        while j < len(t) and d:
            d += t[j] in '([{'
            d -= t[j] in ')]}'
            j += 1
        if d:
            return t
        parts = _split_top(t[i + 6:j - 1], ';')
        if len(parts) == 3:
            inner, lo, hi = parts
            L = 'len(%s)' % inner
            new = []
            for which, b in (('lo', lo), ('hi', hi)):
                if b and L in b:
                    try:
                        terms, c = lin_parse(b)
                    except Exception:
                        terms, c = None, 0
                    if terms == {L: 1} and c < 0:
                        b = str(c)
                    elif terms == {L: 1} and c == 0 and which == 'hi':
                        b = ''
                new.append(b)
            rep_ = 'SLICE(%s;%s;%s)' % (inner, new[0], new[1])
            t = t[:i] + rep_ + t[j:]
        pos = i + 6


def norm_term(text):
    """Spelling-independent form of a rendered byte term: BYTE(<int literal>) is the constant octet, a one-octet INT / LEN is a BYTE,
    adjacent constants are one constant."""
    if text is None:
        return None
    text = _len_relative_slices(_one_octet_ints(text))
    text = text.replace('binascii.a2b_hex(', 'binascii.unhexlify(').replace('binascii.b2a_hex(', 'binascii.hexlify(')
    t = re.sub(r'\bBYTE\((\d+)\)', lambda m: 'C(%02x)' % int(m.group(1)) if int(m.group(1)) < 256 else m.group(0), text)
    while True:
        new = re.sub(r'\bC\(([0-9a-f]*)\) C\(([0-9a-f]*)\)', r'C(\1\2)', t)
        if new == t:
            return t
        t = new


def _split_top(text, sep):
    out, d, cur, q = [], 0, '', None
    i = 0
    while i < len(text):
        ch = text[i]
        if q:
            cur += ch
            if ch == '\\' and i + 1 < len(text):
                cur += text[i + 1]
                i += 1
            elif ch == q:
                q = None
        elif ch in '\'"':
            q = ch
            cur += ch
        elif ch in '([{':
            d += 1
            cur += ch
        elif ch in ')]}':
            d -= 1
            cur += ch
        elif d == 0 and text.startswith(sep, i):
            out.append(cur)
            cur = ''
            i += len(sep) - 1
        else:
            cur += ch
        i += 1
    out.append(cur)
    return out


def split_items(text):
    """Top-level items of a rendered byte term ('INT(1;a) b C(00)' -> ['INT(1;a)', 'b', 'C(00)'])."""
    return [x for x in _split_top(norm_term(text or ''), ' ') if x]


def split_args(text):
    """Top-level arguments of 'f(a, g(b, c))' -> ('f', ['a', 'g(b, c)']) ; None when text is not a call as a whole."""
    text = (text or '').strip()
    if not text.endswith(')'):
        return None
    d = 0
    for i in range(len(text) - 1, -1, -1):          # the parenthesis that matches the final one
        ch = text[i]
        if ch in ')]}':
            d += 1
        elif ch in '([{':
            d -= 1
            if d == 0:
                if ch != '(' or i == 0:
                    return None
                return text[:i], [a.strip() for a in _split_top(text[i + 1:-1], ', ') if a.strip()]
    return None


def strip_parens(t):
    t = (t or '').strip()
    while t.startswith('(') and t.endswith(')') and _balanced(t[1:-1]):
        t = t[1:-1].strip()
    return t


def concat_parts(text):
    """Operands of a concatenation however it was spelled: '(a + b)' (opaque values), 'a b' (byte items) or 'join([a, b])'."""
    t = strip_parens(norm_term(text or ''))
    parts = _split_top(t, ' + ')
    if len(parts) > 1:
        out = []
        for p in parts:
            out.extend(concat_parts(p))
        return out
    return split_items(t) if ' ' in t and len(split_items(t)) > 1 else [t]


def int_equiv(text, reference, samples):
    """Does the rendered integer expression `text` equal reference(**values) on every combination of sample points?

    samples: {sub-term text: (placeholder name, [values])}.  Folding is done by the checker's own evaluator (sa/s2kshape.fold) on
    the parsed expression; no repository code runs.  Returns True / False, or None when the expression is not closed over the
    given sub-terms (something else is mixed in)."""
    from .s2kshape import fold, _NoFold
    t = text or ''
    names = []
    for sub, (ph, vals) in sorted(samples.items(), key=lambda kv: -len(kv[0])):
        t = t.replace(sub, ph)
        names.append((ph, vals))
    try:
        node = ast.parse(t.strip(), mode='eval').body
    except SyntaxError:
        return None
    node = _IntCalls().visit(node)
    try:
        for combo in itertools.product(*[v for _, v in names]):
            env = dict(zip([n for n, _ in names], combo))
            if fold(node, env) != reference(**env):
                return False
    except (_NoFold, ZeroDivisionError, TypeError, ValueError):
        return None
    return True


class _IntCalls(ast.NodeTransformer):
    """Integer idioms over non-negative operands: int(a / b) and divmod(a, b)[0] are a // b, divmod(a, b)[1] is a % b,
    int(x) of an integer expression is the expression."""
    OPS = {'floordiv': ast.FloorDiv, 'add': ast.Add, 'sub': ast.Sub, 'mul': ast.Mult, 'mod': ast.Mod, 'lshift': ast.LShift,
           'rshift': ast.RShift, 'and_': ast.BitAnd, 'or_': ast.BitOr, 'xor': ast.BitXor, 'pow': ast.Pow}

    def visit_Call(self, node):
        self.generic_visit(node)
        if isinstance(node.func, ast.Attribute) and isinstance(node.func.value, ast.Name) and node.func.value.id == 'operator' and \
                node.func.attr in self.OPS and len(node.args) == 2 and not node.keywords:
            return ast.BinOp(left=node.args[0], op=self.OPS[node.func.attr](), right=node.args[1])
        if isinstance(node.func, ast.Name) and node.func.id == 'int' and len(node.args) == 1 and not node.keywords:
            a = node.args[0]
            if isinstance(a, ast.BinOp) and isinstance(a.op, ast.Div):
                return ast.BinOp(left=a.left, op=ast.FloorDiv(), right=a.right)
            return a
        return node

    def visit_Subscript(self, node):
        self.generic_visit(node)
        v = node.value
        if isinstance(v, ast.Call) and isinstance(v.func, ast.Name) and v.func.id == 'divmod' and len(v.args) == 2 and not v.keywords and \
                isinstance(node.slice, ast.Constant) and node.slice.value in (0, 1):
            return ast.BinOp(left=v.args[0], op=ast.FloorDiv() if node.slice.value == 0 else ast.Mod(), right=v.args[1])
        return node


# ------------------------------------------------------------------------------------------------ conditions as boolean functions
class BoolFn(object):
    """Truth-table view of a rendered condition text (as produced by the interpreter's cond_text / EACH filters).

    The text is read by its own structure (balanced brackets; ` or `, ` and `, `not `, comparison operators at the top level), so any
    term syntax may occur inside the atoms.  Atoms: equality of two terms (orientation and ==/!= normalised), `is` / `in` tests,
    isinstance(x, T) per class T, anything else by its text.  `implies(atom)` / `holds_when(atoms)` are decided over all assignments
    of the atoms that occur."""
    def __init__(self, text):
        self.text = text
        self.atoms = []
        if not _balanced(text):
            raise AnalysisError('condition is not a boolean expression the checker can read: %s' % text[:120])
        self.form = self._build(text)

    @staticmethod
    def eq(a, b):
        return ('eq', frozenset([strip_parens(a), strip_parens(b)]))

    @staticmethod
    def isinst(x, t):
        return ('isinstance', strip_parens(x), t)

    def _atom(self, a):
        if a not in self.atoms:
            self.atoms.append(a)
        return ('atom', a)

    def _build(self, t):
        t = strip_parens(t)
        for word, kind in ((' or ', 'or'), (' and ', 'and')):
            parts = _split_top(t, word)
            if len(parts) > 1:
                return (kind, [self._build(p) for p in parts])
        if t.startswith('not '):
            return ('not', self._build(t[4:]))
        if t in ('True', 'False'):
            return ('const', t == 'True')
        for op, kind, neg in ((' == ', 'eq', False), (' != ', 'eq', True), (' is not ', 'is', True), (' is ', 'is', False),
                              (' not in ', 'in', True), (' in ', 'in', False)):
            parts = _split_top(t, op)
            if len(parts) == 2:
                l, r = strip_parens(parts[0]), strip_parens(parts[1])
                a = self._atom((kind, frozenset([l, r])) if kind != 'in' else (kind, l, r))
                return ('not', a) if neg else a
        c = split_args(t)
        if c is not None and c[0] == 'isinstance' and len(c[1]) == 2:
            ts = c[1][1]
            ts = [x.strip() for x in _split_top(ts[1:-1], ', ')] if ts.startswith('(') and ts.endswith(')') else [ts]
            parts = [self._atom(('isinstance', strip_parens(c[1][0]), x.split('.')[-1])) for x in ts if x]
            return parts[0] if len(parts) == 1 else ('or', parts)
        if c is not None and c[0] == 'bool' and len(c[1]) == 1:
            return self._build(c[1][0])
        return self._atom(('expr', t))

    def _ev(self, f, asg):
        k = f[0]
        if k == 'const':
            return f[1]
        if k == 'atom':
            return asg[f[1]]
        if k == 'not':
            return not self._ev(f[1], asg)
        vals = [self._ev(x, asg) for x in f[1]]
        return all(vals) if k == 'and' else any(vals)

    def _assignments(self, extra=()):
        atoms = list(self.atoms) + [a for a in extra if a not in self.atoms]
        if len(atoms) > 12:
            raise AnalysisError('condition with %d atoms: %s' % (len(atoms), self.text[:120]))
        for combo in itertools.product((False, True), repeat=len(atoms)):
            yield dict(zip(atoms, combo))

    def implies(self, atom):
        """Whenever the condition holds, `atom` holds."""
        return all(asg[atom] for asg in self._assignments([atom]) if self._ev(self.form, asg))

    def holds_when(self, atoms):
        """The condition can hold when all `atoms` hold (it does not exclude the intended element)."""
        return any(self._ev(self.form, asg) for asg in self._assignments(atoms) if all(asg[a] for a in atoms))

    def depends_only_on(self, atoms):
        """The condition is the conjunction of `atoms` and nothing else decides it."""
        for asg in self._assignments(atoms):
            if self._ev(self.form, asg) != all(asg[a] for a in atoms):
                return False
        return True


# ------------------------------------------------------------------------------------------------ entropy sources
ENTROPY_PATTERNS = [
    r'^os\.urandom\((?P<n>.+)\)$',
    r'^(?P<alg>.+)\.gen_iv\(\)$',
    r'^(?P<alg>.+)\.gen_key\(\)$',
    r'^x25519\.X25519PrivateKey\.generate\(\)$',
    r'^ed25519\.Ed25519PrivateKey\.generate\(\)$',
    r'^ec\.generate_private_key\((?P<curve>.+), default_backend\(\)\)$',
    r'^ec\.generate_private_key\((?P<curve>.+)\)$',
    r'^rsa\.generate_private_key\(.+\)$',
    r'^dsa\.generate_private_key\(.+\)$',
]


def _operand_before(text, idx):
    """The operand that ends at text[idx] (exclusive): identifiers, attribute dots and balanced brackets, scanned backwards."""
    i, d = idx, 0
    while i > 0:
        ch = text[i - 1]
        if ch in ')]}':
            d += 1
        elif ch in '([{':
            if d == 0:
                break
            d -= 1
        elif d == 0 and not (ch.isalnum() or ch in '_.$<>#'):
            break
        i -= 1
    return text[i:idx]


def fresh_draw(text):
    """('iv' | 'key', <cipher text>) when `text` is, as a whole, one fresh draw of a cipher's block / key size:
    <cipher>.gen_iv() / <cipher>.gen_key(), or os.urandom(n) with n equal to <cipher>.block_size // 8 / <cipher>.key_size // 8 at
    every size (folded by the checker) - what gen_iv / gen_key themselves are required to be by C13.1.  None otherwise."""
    t = (text or '').strip()
    m = re.match(r'^(?P<alg>.+)\.gen_(?P<kind>iv|key)\(\)$', t)
    if m and _balanced(m.group('alg')):
        return m.group('kind'), m.group('alg')
    c = split_args(t)
    if c is not None and c[0] == 'os.urandom' and len(c[1]) == 1:
        n = c[1][0]
        for attr, kind in (('.block_size', 'iv'), ('.key_size', 'key')):
            i = n.find(attr)
            if i > 0:
                alg = _operand_before(n, i)
                if alg and int_equiv(n, lambda B: B // 8, {alg + attr: ('B', [64, 128, 192, 256])}) is True:
                    return kind, alg
    return None


def n_draws(state):
    """Number of entropy-source calls made on this path (gen_iv / gen_key / os.urandom / key generators)."""
    return sum(len(draws(state, x)) for x in ('gen_iv', 'gen_key', 'urandom', 'generate', 'generate_private_key'))


def random_prefix(items, alg, data):
    """RFC 4880 5.13 prefix: items start with <one fresh block-size draw of `alg`> <its last two octets> <data>.
    -> the text of the draw, or None."""
    from .interp import sl
    if len(items) >= 3 and fresh_draw(items[0]) == ('iv', alg) and items[1] == sl(items[0], (-2, '')) and items[2] == data:
        return items[0]
    return None


STDLIB = ('os', 'zlib', 'bz2', 'binascii', 'hashlib', 'functools', 'operator')


def qualify_imports(text, module):
    """`from zlib import compress as zc`: a bare zc(...) in a value text is zlib.compress(...) (standard library names only)."""
    for alias, imp in getattr(module, 'imports', {}).items():
        if text and imp[1] is not None and imp[0] in STDLIB and alias != '*':
            text = re.sub(r'(?<![A-Za-z0-9_.\'"])%s(?![A-Za-z0-9_\'"=])' % re.escape(alias), '%s.%s' % (imp[0], imp[1]), text)
    return text


def zero_octets(text):
    """The length expression n when `text` denotes n zero octets: b'\\0' * n, bytes(n), (0).to_bytes(n, 'big'), b''.ljust(n, b'\\0')."""
    t = norm_term(text or '')
    for head in ('REP(C(00);', 'INT('):
        if t.startswith(head) and t.endswith(')') and _balanced(t[len(head):-1]):
            inner = t[len(head):-1]
            if head == 'INT(':
                parts = _split_top(inner, ';')
                return parts[0] if len(parts) == 2 and parts[1] == '0' else None
            return inner
    c = split_args(t)
    if c is not None and c[0] in ('C().ljust', '.ljust', "C().rjust", '.rjust') and len(c[1]) == 2 and c[1][1] == 'C(00)':
        return c[1][0]
    return None


def qualify_urandom(text, module):
    """`from os import urandom`: a bare urandom(...) in a value text is os.urandom(...)."""
    imp = getattr(module, 'imports', {}).get('urandom')
    if text and imp is not None and imp[0] == 'os' and imp[1] == 'urandom':
        return re.sub(r'(?<![A-Za-z0-9_.])urandom\(', 'os.urandom(', text)
    return text


def is_urandom_of(text, nbytes, module=None):
    """Is `text`, as a whole, os.urandom(<expression that folds to nbytes>)?"""
    c = split_args(qualify_imports(text, module) if module is not None else (text or ''))
    return c is not None and c[0] == 'os.urandom' and len(c[1]) == 1 and int_equiv(c[1][0], lambda: nbytes, {}) is True


def entropy_call(text):
    """Match object if `text` is, as a whole, a call of an entropy source."""
    t = text.strip()
    for p in ENTROPY_PATTERNS:
        m = re.match(p, t)
        if m and _balanced(t) and all(_balanced(g) for g in m.groups() if g):
            return m
    return None


def _balanced(s):
    d = 0
    for ch in s:
        if ch in '([{':
            d += 1
        elif ch in ')]}':
            d -= 1
            if d < 0:
                return False
    return d == 0


_STR_LIT = re.compile(r"""(?<![A-Za-z0-9_])[bBrRuUfF]{0,2}('(?:[^'\\\n]|\\.)*'|"(?:[^"\\\n]|\\.)*")""")


def mentions(text, name):
    if ("'" in text or '"' in text) and not ("'" in name or '"' in name):
        # a word inside a string literal (an error message that NAMES the parameter) is not the value
        text = _STR_LIT.sub("''", text)
    return re.search(r'(?<![A-Za-z0-9_.])%s(?![A-Za-z0-9_])' % re.escape(name), text) is not None


def strip_calls(text, allowed):
    """Remove every `callee(...)` whose callee text ends with one of `allowed` (balanced), so what remains is the part of
    the value that is NOT protected by an encrypting call."""
    out = text
    if 'memoryview(' in out and '.nbytes' in out:
        # memoryview(x).nbytes observes the size of x and nothing else: the same observation as len(x)
        out = re.sub(r'(?<![A-Za-z0-9_.])memoryview\(([^()]*(?:\([^()]*\)[^()]*)*)\)\.nbytes\b', r'len(\1)', out)
    changed = True
    while changed:
        changed = False
        for name in allowed:
            for m in re.finditer(r'(?<![A-Za-z0-9_])((?:[A-Za-z_<][A-Za-z0-9_\[\]\'"<>#]*\.)*%s)\(' % re.escape(name), out):
                start = m.start()
                j = m.end()
                depth = 1
                while j < len(out) and depth:
                    if out[j] in '([{':
                        depth += 1
                    elif out[j] in ')]}':
                        depth -= 1
                    j += 1
                if depth == 0:
                    out = out[:start] + '<ENC>' + out[j:]
                    changed = True
                    break
            if changed:
                break
    return out


def leaks(state, name, allowed_calls, ignore_targets=(), sanitizers=None, substring=False, global_names=()):
    """Places where `name` escapes on this path other than through an allowed (encrypting) call:
       attribute stores, |= , return value, yields, and calls that are not in `allowed_calls`.

       `allowed_calls`: callees the value may be handed to.  `sanitizers` (default: allowed_calls): callees whose RESULT no
       longer exposes the value (encryption, key wrap) - a copy such as bytes(key) is allowed as a call but its result still is
       the key."""
    if sanitizers is None:
        sanitizers = allowed_calls
    if substring:           # `name` is a term (e.g. '<cipher>.gen_key()'), not an identifier
        def mentions(text, name):
            return name in text
    else:
        mentions = globals()['mentions']
    out = []
    for path, val, line, _ in state.stores:
        if path in ignore_targets:
            continue
        if mentions(strip_calls(val, sanitizers), name):
            out.append(('store', '%s = %s' % (path, val), line))
    for ev in state.events:
        if ev[0] == 'ior' and (mentions(ev[1], name) or mentions(strip_calls(ev[2], sanitizers), name)):
            out.append(('ior', '%s |= %s' % (ev[1], ev[2]), ev[3]))
        if ev[0] == 'return' and mentions(strip_calls(ev[1], sanitizers), name):
            out.append(('return', 'return %s' % ev[1], ev[2]))
        if ev[0] == 'yield' and mentions(strip_calls(ev[1], sanitizers), name):
            out.append(('yield', 'yield %s' % ev[1], ev[2]))
        if ev[0] == 'raise' and mentions(strip_calls(ev[1], sanitizers), name):
            out.append(('raise', 'raise %s' % ev[1], ev[2]))
        if ev[0] == 'assign' and ev[1] in global_names and mentions(strip_calls(ev[2], sanitizers), name):
            out.append(('global', 'global %s = %s' % (ev[1], ev[2]), ev[3]))
    for ft, args, kw, line, node in state.calls:
        base = ft.split('.')[-1]
        if base in allowed_calls or ft in allowed_calls:
            continue
        fnode = getattr(node, 'func', None)
        if base in ('append', 'extend', 'join', 'insert') and isinstance(fnode, ast.Attribute) and \
                isinstance(fnode.value, (ast.Name, ast.Constant)) and \
                not re.match(r'^(<[A-Za-z0-9_#]+>|[A-Za-z_][A-Za-z0-9_]*)(\.[A-Za-z_][A-Za-z0-9_]*)*$', ft):
            continue            # building a LOCAL buffer / list (a local whose value is its contents): tracked as a value, not an escape
        allargs = list(args) + list(kw.values())
        if any(mentions(strip_calls(a, sanitizers), name) for a in allargs):
            out.append(('call', '%s(%s)' % (ft, ', '.join(allargs)), line))
    return out


def captured_leaks(fi, state, name):
    """Escapes of the secret that are not values at all: a deferred scope that closes over it and is kept (a lambda / nested function /
    generator expression / class body assigned to an attribute or item, returned, or or-ed into the result), the message of an `assert`,
    a snapshot of the local namespace (locals() / vars()).  Decided on the function's AST with the path's final environment telling which
    locals hold the secret (def-use, not text): -> [(kind, text, line)]."""
    tainted = {k for k, v in state.env.items() if re.match(r'^[A-Za-z_][A-Za-z0-9_]*$', k) and v is not None and mentions(render(v), name)}
    if not tainted:
        return []
    node = fi.node
    scopes = {}
    for n in ast.walk(node):
        if isinstance(n, (ast.FunctionDef, ast.AsyncFunctionDef, ast.ClassDef)) and n is not node:
            scopes[n.name] = n

    def free_tainted(d):
        bound = set()
        if isinstance(d, (ast.Lambda, ast.FunctionDef, ast.AsyncFunctionDef)):
            a = d.args
            bound = {x.arg for x in a.posonlyargs + a.args + a.kwonlyargs} | ({a.vararg.arg} if a.vararg else set()) | ({a.kwarg.arg} if a.kwarg else set())
            inner = list(a.defaults) + [k for k in a.kw_defaults if k is not None]       # evaluated now, kept with the function
            hits = {x.id for e in inner for x in ast.walk(e) if isinstance(x, ast.Name) and x.id in tainted}
            body = d.body if isinstance(d.body, list) else [d.body]
        elif isinstance(d, ast.ClassDef):
            hits, body = set(), d.body
        else:
            hits = set()
            for g in d.generators:
                bound |= {x.id for x in ast.walk(g.target) if isinstance(x, ast.Name)}
            body = [d]
        for b in body:
            for x in ast.walk(b):
                if isinstance(x, ast.Name) and isinstance(x.ctx, ast.Load) and x.id in tainted and x.id not in bound:
                    hits.add(x.id)
        return hits

    def deferred_in(expr):
        out = []
        for x in ast.walk(expr):
            if isinstance(x, (ast.Lambda, ast.GeneratorExp)):
                out.append(x)
            elif isinstance(x, ast.Name) and isinstance(x.ctx, ast.Load) and x.id in scopes:
                out.append(scopes[x.id])
        return out

    out = []
    for n in ast.walk(node):
        kept = None
        if isinstance(n, (ast.Assign, ast.AugAssign, ast.AnnAssign)) and getattr(n, 'value', None) is not None:
            tg = n.targets if isinstance(n, ast.Assign) else [n.target]
            flat = [e for t in tg for e in (t.elts if isinstance(t, (ast.Tuple, ast.List)) else [t])]
            if any(isinstance(t, (ast.Attribute, ast.Subscript)) for t in flat) or \
                    (isinstance(n, ast.AugAssign) and isinstance(n.op, ast.BitOr)):
                kept = n.value
        elif isinstance(n, ast.Return) and n.value is not None:
            kept = n.value
        if kept is not None:
            for d in deferred_in(kept):
                h = free_tainted(d)
                if h:
                    out.append(('closure', '%s keeps %s' % (ast.unparse(n)[:120], sorted(h)), n.lineno))
        if isinstance(n, ast.Assert) and n.msg is not None and any(isinstance(x, ast.Name) and x.id in tainted for x in ast.walk(n.msg)):
            out.append(('assert', ast.unparse(n)[:160], n.lineno))
        if isinstance(n, ast.Call) and isinstance(n.func, ast.Name) and n.func.id in ('locals', 'vars') and not n.args and not n.keywords:
            out.append(('locals', 'the local namespace (which holds the secret) is captured by %s()' % n.func.id, n.lineno))
    return out
