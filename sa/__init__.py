"""Static-analysis engines for the PGPy property checks (stdlib only; never imports pgpy)."""
