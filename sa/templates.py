"""RFC-derived byte-layout templates and the matcher.

A template is a list of elements: item tuples (as produced by sa.interp) that must match literally after
constant merging, or Pred(name, fn) elements deciding one found item.  Roles are bound by the caller (alias
sets come from the class table); matching is positional equality of merged token lists, so a missing, extra,
reordered or re-sized term is a definite mismatch that can be printed as expected-vs-found.
"""
import itertools

from .interp import merge_consts, render_item, render_items


class Pred(object):
    def __init__(self, name, fn):
        self.name = name
        self.fn = fn

    def __repr__(self):
        return '<%s>' % self.name


def C(hexs):
    return ('C', bytes.fromhex(hexs))


def LEN(w, text):
    return ('INT', str(w), 'len(%s)' % text)


def INT(w, text):
    return ('INT', str(w), text)


def BYTE(text):
    return ('BYTE', text)


def SYM(text):
    return ('SYM', text)


def _merge_template(tpl):
    out = []
    for e in tpl:
        if isinstance(e, tuple) and e[0] == 'C':
            if out and isinstance(out[-1], tuple) and out[-1][0] == 'C':
                out[-1] = ('C', out[-1][1] + e[1])
                continue
        out.append(e)
    return out


def render_template(tpl):
    return ' '.join(repr(e) if isinstance(e, Pred) else render_item(e) for e in _merge_template(tpl))


def match(found_items, tpl):
    """Return (ok, index_of_first_difference, message)."""
    f = merge_consts(found_items)
    t = _merge_template(tpl)
    n = max(len(f), len(t))
    for i in range(n):
        if i >= len(f):
            return False, i, 'missing term %s' % (repr(t[i]) if isinstance(t[i], Pred) else render_item(t[i]))
        if i >= len(t):
            return False, i, 'extra term %s' % render_item(f[i])
        e = t[i]
        if isinstance(e, Pred):
            if not e.fn(f[i]):
                return False, i, 'term %d: %s does not satisfy <%s>' % (i, render_item(f[i]), e.name)
        elif render_item(e) != render_item(f[i]):
            return False, i, 'term %d: expected %s, found %s' % (i, render_item(e), render_item(f[i]))
    return True, -1, ''


def match_any(found_items, builder, role_aliases):
    """builder(**roles) -> template; role_aliases: role -> list of candidate texts.  Try every binding."""
    names = sorted(role_aliases)
    first_fail = None
    for combo in itertools.product(*[role_aliases[n] for n in names]):
        roles = dict(zip(names, combo))
        tpl = builder(**roles)
        ok, idx, msg = match(found_items, tpl)
        if ok:
            return True, roles, '', render_template(tpl)
        if first_fail is None or idx > first_fail[0]:
            first_fail = (idx, msg, render_template(tpl))
    return False, None, first_fail[1], first_fail[2]
