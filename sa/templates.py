"""RFC-derived byte-layout templates and the matcher.

A template is a list of elements: item tuples (as produced by sa.interp) that must match literally after
constant merging, or Pred(name, fn) elements deciding one found item.  Roles are bound by the caller (alias
sets come from the class table); matching is positional equality of merged token lists, so a missing, extra,
reordered or re-sized term is a definite mismatch that can be printed as expected-vs-found.
"""
import itertools

from .interp import merge_consts, render_item, render_items


class Pred(object):
    def __init__(self, name, fn):
        self.name = name
        self.fn = fn

    def __repr__(self):
        return '<%s>' % self.name


def C(hexs):
    return ('C', bytes.fromhex(hexs))


def LEN(w, text):
    return ('INT', str(w), 'len(%s)' % text)


def INT(w, text):
    return ('INT', str(w), text)


def BYTE(text):
    return ('BYTE', text)


def SYM(text):
    return ('SYM', text)


def _merge_template(tpl):
    out = []
    for e in tpl:
        if isinstance(e, tuple) and e[0] == 'C':
            if out and isinstance(out[-1], tuple) and out[-1][0] == 'C':
                out[-1] = ('C', out[-1][1] + e[1])
                continue
        out.append(e)
    return out


def render_template(tpl):
    return ' '.join(repr(e) if isinstance(e, Pred) else render_item(e) for e in _merge_template(tpl))


def octet_normal(items):
    """Spelling-independent form of a term list: a fixed-width integer of a literal value is that constant (int_to_bytes(0, 2) ==
    b'\\x00\\x00'); a one-octet integer field is the octet itself (int_to_bytes(x) == bytearray([x]) for the octet-valued
    header fields - the assumption stated by the rules that use templates)."""
    out = []
    for it in items:
        if isinstance(it, tuple) and it[0] == 'INT' and str(it[1]).isdigit() and str(it[2]).isdigit() and int(it[2]) < 256 ** max(int(it[1]), 1):
            out.append(('C', int(it[2]).to_bytes(max(int(it[1]), 1), 'big')))
        elif isinstance(it, tuple) and it[0] == 'INT' and str(it[1]) == '1':
            out.append(('BYTE', it[2]))
        elif isinstance(it, tuple) and it[0] == 'BYTE' and str(it[1]).isdigit() and int(it[1]) < 256:
            out.append(('C', bytes([int(it[1])])))
        else:
            out.append(it)
    return out


def match(found_items, tpl):
    """Return (ok, index_of_first_difference, message)."""
    f = merge_consts(octet_normal(found_items))
    t = _merge_template(octet_normal(tpl))
    n = max(len(f), len(t))
    for i in range(n):
        if i >= len(f):
            return False, i, 'missing term %s' % (repr(t[i]) if isinstance(t[i], Pred) else render_item(t[i]))
        if i >= len(t):
            return False, i, 'extra term %s' % render_item(f[i])
        e = t[i]
        if isinstance(e, Pred):
            if not e.fn(f[i]):
                return False, i, 'term %d: %s does not satisfy <%s>' % (i, render_item(f[i]), e.name)
        elif render_item(e) != render_item(f[i]):
            return False, i, 'term %d: expected %s, found %s' % (i, render_item(e), render_item(f[i]))
    return True, -1, ''


def match_any(found_items, builder, role_aliases):
    """builder(**roles) -> template; role_aliases: role -> list of candidate texts.  Try every binding."""
    names = sorted(role_aliases)
    first_fail = None
    for combo in itertools.product(*[role_aliases[n] for n in names]):
        roles = dict(zip(names, combo))
        tpl = builder(**roles)
        ok, idx, msg = match(found_items, tpl)
        if ok:
            return True, roles, '', render_template(tpl)
        if first_fail is None or idx > first_fail[0]:
            first_fail = (idx, msg, render_template(tpl))
    return False, None, first_fail[1], first_fail[2]


# ------------------------------------------------------------------------------------------------ rendered value helpers
def split_top(t, sep=','):
    """Split a rendered text at top-level separators (brackets and quotes respected)."""
    out, d, cur, q = [], 0, '', None
    for ch in t:
        if q is not None:
            cur += ch
            if ch == q:
                q = None
            continue
        if ch in '\'"':
            q = ch
        elif ch in '([{':
            d += 1
        elif ch in ')]}':
            d -= 1
        if ch == sep and d == 0:
            out.append(cur.strip())
            cur = ''
        else:
            cur += ch
    if cur.strip():
        out.append(cur.strip())
    return out


def display_keys(text):
    """Key texts of a rendered dict display `{k1: v1, ...}` / set or tuple display, or None when the text is not a display."""
    if len(text) < 2 or text[0] not in '{([' or text[-1] not in '})]':
        return None
    out = []
    for e in split_top(text[1:-1]):
        kv = split_top(e, ':')
        out.append(kv[0])
    return out


def resolve_lookup(text):
    """A rendered dispatch `{k1: v1, ...}.get(K, D)` or `{k1: v1, ...}[K]` with K a decided key -> the selected value text
    (D when K is no key of the display); any other text is returned unchanged.  This is how a rule reads "which class does the
    table give for member M" off the interpreter's value instead of off the dict literal in the source."""
    if not text.startswith('{'):
        return text
    d = 0
    end = None
    for i, ch in enumerate(text):
        if ch in '([{':
            d += 1
        elif ch in ')]}':
            d -= 1
            if d == 0:
                end = i
                break
    if end is None:
        return text
    table = {}
    for e in split_top(text[1:end]):
        kv = split_top(e, ':')
        if len(kv) != 2:
            return text
        table[kv[0]] = kv[1]
    rest = text[end + 1:]
    if rest.startswith('.get(') and rest.endswith(')'):
        a = split_top(rest[5:-1])
        if len(a) in (1, 2):
            return table.get(a[0], a[1] if len(a) == 2 else 'None')
    if rest.startswith('[') and rest.endswith(']') and rest[1:-1] in table:
        return table[rest[1:-1]]
    return text


def area_template(coll, width=2):
    """RFC 4880 5.2.3 subpacket area built from objects: a `width`-octet count of the octets that follow, then every member of
    `coll` serialised in order.  The count may be spelled as the sum of the members' lengths, as the sum of the lengths of
    their serialisations or as the length of the serialised body; a loop, a comprehension and a join give the same EACH term."""
    from .interp import alpha

    def members(item):
        return item[0] == 'EACH' and item[2] == coll and [tuple(i) for i in merge_consts(item[3])] == [('SYM', '%s.__bytearray__()' % item[1])]

    def count(item):
        if item[0] != 'INT' or item[1] != str(width):
            return False
        t = alpha(item[2])
        return t in ('sum(EACH($1 in %s;len($1)))' % coll, 'sum(EACH($1 in %s;len($1.__bytearray__())))' % coll,
                     'sum(map(len, %s))' % coll, 'len(EACH($1 in %s;$1.__bytearray__()))' % coll)
    return [Pred('LEN(%d; members of %s)' % (width, coll), count), Pred('EACH(x in %s; x.__bytearray__())' % coll, members)]


def b2i_forms(owner, x):
    """Value texts that denote the big-endian integer of the octets x: the library helper (a thin wrapper, checked by C09) and the
    builtin it wraps."""
    return ['%s.bytes_to_int(%s)' % (owner, x), "int.from_bytes(%s, 'big')" % x, "int.from_bytes(%s, byteorder='big')" % x,
            "%s.bytes_to_int(%s, 'big')" % (owner, x)]


UNMODELLED = (r'EACH\(_ in while ', r'loop-rebound\(', r'\.to_bytes\(', r'\.pop\(', r'\breduce\(', r'\bmethodcaller\(', r'\boperator\.\w+\(',
              r'<raises ', r'slice-assigned\(', r'\bstruct\.pack\(', r'EACH\((\$[\d.]+) in [^;]*\)(?: if [^;]*)?;\1\)')


def unmodelled(text):
    """The residue the interpreter leaves in a value when the source uses a construct outside its byte-term model (a while loop
    that drains a list, a fold through functools/operator, pieces yielded by a generator helper, struct packing, an inlined
    int.to_bytes ...): such a value cannot be compared with a template, and a rule that finds one must answer exit 2
    (AnalysisError), never "violation".  Returns the marker found, or None."""
    import re as _re
    for pat in UNMODELLED:
        m = _re.search(pat, text or '')
        if m:
            return m.group(0)
    return None


# ------------------------------------------------------------------------------------------------ lengths of covered runs
def _split_items(text):
    """Top-level, space separated item texts of a rendered item list."""
    out, d, cur, q = [], 0, '', None
    for ch in text:
        if q is not None:
            cur += ch
            if ch == q:
                q = None
            continue
        if ch in '\'"':
            q = ch
        elif ch in '([{':
            d += 1
        elif ch in ')]}':
            d -= 1
        if ch == ' ' and d == 0:
            if cur:
                out.append(cur)
            cur = ''
        else:
            cur += ch
    if cur:
        out.append(cur)
    return out


def length_normal(text):
    """Integer-linear normal form ({atom: coefficient}, constant) of a length expression in which every `len(<run of items>)` is
    the sum of the lengths of the items of the run: a single octet (BYTE) is 1, a constant its number of octets, any other item x
    the atom len(x).  `len(a b) + len(c)`, `len(c) + len(a) + len(b)` and `len(a b c)` have the same normal form; for
    a = BYTE BYTE BYTE BYTE it is 4 + ...; leaving an item out or counting one twice changes it."""
    import re as _re
    from .interp import lin_parse
    terms, const = lin_parse(text)
    out = {}
    for atom, k in terms.items():
        m = _re.match(r'^len\((.*)\)$', atom)
        inner = m.group(1) if m else None
        if inner is None or inner.count('(') != inner.count(')'):
            out[atom] = out.get(atom, 0) + k
            continue
        for piece in _split_items(inner):
            mc = _re.match(r'^C\(([0-9a-f]*)\)$', piece)
            if piece.startswith('BYTE(') and piece.endswith(')'):
                const += k
            elif mc:
                const += k * (len(mc.group(1)) // 2)
            else:
                a = 'len(%s)' % piece
                out[a] = out.get(a, 0) + k
    return {a: k for a, k in out.items() if k != 0}, const


def length_covers_run(text, items):
    """Does the length expression `text` denote exactly the number of octets of the run `items` (each item once)?"""
    try:
        return length_normal(text) == length_normal('len(%s)' % render_items(items))
    except Exception:
        return False
