"""E5 - finite flag-predicate analysis and verdict-object rules shared by C01 and C17.

Everything here is decided from *values*, never from the spelling of the source:
  * the verdict predicate `SecurityIssues.causes_signature_verify_to_fail` is evaluated by a checker-side evaluator (FlagFn)
    at every subset of the declared flag bits (2^n rows); monotonicity, the disqualifying members and the advisory members
    are read off that truth table
  * the record of a verification (`SignatureVerification._sigsubj`) is taken from `add_sigsubj` under the interpreter: its
    fields are mapped by namedtuple position / keyword, the four caller values by parameter position
  * good_signatures / bad_signatures / __bool__ are interpreted once per row of the truth table over the atoms
    {record.issues truthy, record.issues.<predicate>}; loops, comprehensions, `continue` chains and helpers give the same rows
  * PGPKey.verify is interpreted under the atoms {issue set truthy, predicate, library verdict}; the pair examined is the pair
    the loop binds, whatever the variables are called
"""
import ast
import re
import itertools

from .loader import AnalysisError, FunctionInfo, dotted
from .interp import Interp, Scenario, Sym, Const, ListV, render, alpha
from .cfg import CFG, calls_in
from . import guards

DISQUALIFYING = ['WrongSig', 'Expired', 'Disabled', 'Invalid', 'NoSelfSignature']
ADVISORY = ['BrokenAsymmetricFunc', 'HashFunctionNotCollisionResistant', 'HashFunctionNotSecondPreimageResistant',
            'AsymmetricKeyLengthIsTooShort', 'InsecureCurve']
PREDICATE = 'causes_signature_verify_to_fail'
# public fields of a verification record, in the positional order of SignatureVerification.add_sigsubj(signature, by, subject, issues)
ROLES = ('signature', 'by', 'subject', 'issues')

noinline = lambda f: False  # noqa: E731


def _issues(prog):
    ci = prog.cls('pgpy.constants', 'SecurityIssues')
    mem = ci.enum_members()
    mem = {k: v for k, v in mem.items() if isinstance(v, int) and not isinstance(v, bool)}
    if not mem:
        raise AnalysisError('SecurityIssues has no members')
    return ci, mem


# ------------------------------------------------------------------------------------------------ flag evaluator
class _Unknown(Exception):
    pass


class Flag(int):
    """A value of the flag class (IntFlag): `a in b` is bit containment, & | ^ ~ stay flags."""
    def __and__(self, o):
        return Flag(int(self) & int(o))
    __rand__ = __and__

    def __or__(self, o):
        return Flag(int(self) | int(o))
    __ror__ = __or__

    def __xor__(self, o):
        return Flag(int(self) ^ int(o))
    __rxor__ = __xor__

    def __invert__(self):
        return Flag(~int(self))


class _Return(Exception):
    def __init__(self, v):
        self.v = v


class _Break(Exception):
    pass


class _Continue(Exception):
    pass


class FlagFn(object):
    """Checker-side evaluation of a method / property of a flag class at concrete flag values.

    Finite truth-table evaluation of closed expressions over the declared members (like s2kshape.fold): no repository code
    runs; any construct outside the small language below raises AnalysisError (never a verdict)."""
    def __init__(self, prog, ci, mem):
        self.prog, self.ci, self.mem = prog, ci, mem
        self.depth = 0

    def call(self, f, selfval):
        if self.depth > 4:
            raise _Unknown('recursion')
        p = f.params
        env = {p[0]: Flag(selfval)} if p else {}
        self.depth += 1
        try:
            self.block(f.node.body, env, f)
        except _Return as r:
            return r.v
        finally:
            self.depth -= 1
        return None

    # statements
    def block(self, stmts, env, f):
        for st in stmts:
            self.stmt(st, env, f)

    def stmt(self, st, env, f):
        if isinstance(st, ast.Expr):
            if not isinstance(st.value, ast.Constant):
                self.ev(st.value, env, f)
            return
        if isinstance(st, (ast.Pass, ast.Import, ast.ImportFrom)):
            return
        if isinstance(st, ast.Return):
            raise _Return(self.ev(st.value, env, f) if st.value is not None else None)
        if isinstance(st, ast.Assign) and all(isinstance(t, ast.Name) for t in st.targets):
            v = self.ev(st.value, env, f)
            for t in st.targets:
                env[t.id] = v
            return
        if isinstance(st, ast.AugAssign) and isinstance(st.target, ast.Name):
            env[st.target.id] = self.binop(st.op, self.ev(ast.Name(id=st.target.id, ctx=ast.Load()), env, f), self.ev(st.value, env, f))
            return
        if isinstance(st, ast.If):
            self.block(st.body if self.ev(st.test, env, f) else st.orelse, env, f)
            return
        if isinstance(st, ast.For) and isinstance(st.target, ast.Name):
            broke = False
            for x in self.iterable(self.ev(st.iter, env, f)):
                env[st.target.id] = x
                try:
                    self.block(st.body, env, f)
                except _Break:
                    broke = True
                    break
                except _Continue:
                    continue
            if not broke:
                self.block(st.orelse, env, f)
            return
        if isinstance(st, ast.Break):
            raise _Break()
        if isinstance(st, ast.Continue):
            raise _Continue()
        raise _Unknown('statement %s' % type(st).__name__)

    def iterable(self, v):
        if isinstance(v, (tuple, list, set, frozenset)):
            return list(v) if isinstance(v, (tuple, list)) else sorted(v)
        raise _Unknown('iteration over %r' % (v,))

    # expressions
    def ev(self, n, env, f):
        if isinstance(n, ast.Constant):
            return n.value
        if isinstance(n, ast.Name):
            if n.id in env:
                return env[n.id]
            if n.id == self.ci.name:
                return self.ci
            if f is not None and n.id in f.module.assigns:
                return self.ev(f.module.assigns[n.id], {}, f)
            m = self.ci.module
            if n.id in m.assigns:
                return self.ev(m.assigns[n.id], {}, None)
            raise _Unknown('name %s' % n.id)
        if isinstance(n, ast.Attribute):
            d = dotted(n)
            if d is not None and d.split('.')[-2:-1] == [self.ci.name] and n.attr in self.mem:
                return Flag(self.mem[n.attr])
            base = self.ev(n.value, env, f)
            if base is self.ci or isinstance(base, Flag):
                if n.attr in self.mem:
                    return Flag(self.mem[n.attr])       # member seen through the class or an instance
                if isinstance(base, Flag):
                    if n.attr in ('value', '_value_'):
                        return int(base)
                    g = self.ci.find_method(n.attr)
                    if g is not None and any(dotted(x) == 'property' for x in g.node.decorator_list):
                        return self.call(g, base)
                av = self.ci.find_attr(n.attr)
                if av is not None:
                    return self.ev(av, {}, None)
            raise _Unknown('attribute %s' % ast.unparse(n))
        if isinstance(n, (ast.Tuple, ast.List)):
            return tuple(self.ev(e, env, f) for e in n.elts)
        if isinstance(n, ast.Set):
            return frozenset(self.ev(e, env, f) for e in n.elts)
        if isinstance(n, ast.UnaryOp):
            v = self.ev(n.operand, env, f)
            if isinstance(n.op, ast.Not):
                return not v
            if isinstance(n.op, ast.Invert) and isinstance(v, int) and not isinstance(v, bool):
                return ~v
            if isinstance(n.op, ast.USub) and isinstance(v, int) and not isinstance(v, bool):
                return -int(v)
            raise _Unknown(ast.unparse(n))
        if isinstance(n, ast.BinOp):
            return self.binop(n.op, self.ev(n.left, env, f), self.ev(n.right, env, f))
        if isinstance(n, ast.BoolOp):
            v = None
            for x in n.values:
                v = self.ev(x, env, f)
                if isinstance(n.op, ast.And) and not v:
                    return v
                if isinstance(n.op, ast.Or) and v:
                    return v
            return v
        if isinstance(n, ast.IfExp):
            return self.ev(n.body if self.ev(n.test, env, f) else n.orelse, env, f)
        if isinstance(n, ast.Compare):
            l = self.ev(n.left, env, f)
            for op, c in zip(n.ops, n.comparators):
                r = self.ev(c, env, f)
                if not self.compare(op, l, r):
                    return False
                l = r
            return True
        if isinstance(n, (ast.GeneratorExp, ast.ListComp, ast.SetComp)):
            out = []
            self.comp(n, 0, dict(env), f, out)
            return frozenset(out) if isinstance(n, ast.SetComp) else tuple(out)
        if isinstance(n, ast.Call) and not n.keywords:
            fn = dotted(n.func)
            args = [self.ev(a, env, f) for a in n.args]
            if fn == 'bool' and len(args) == 1:
                return bool(args[0])
            if fn == 'int' and len(args) == 1 and isinstance(args[0], int):
                return int(args[0])
            if fn in ('any', 'all') and len(args) == 1:
                return {'any': any, 'all': all}[fn](self.iterable(args[0]))
            if fn in ('tuple', 'list') and len(args) <= 1:
                return tuple(self.iterable(args[0])) if args else ()
            if fn in ('set', 'frozenset') and len(args) <= 1:
                return frozenset(self.iterable(args[0])) if args else frozenset()
            if fn == 'len' and len(args) == 1:
                return len(self.iterable(args[0]))
            if fn is not None and fn.split('.')[-1] == self.ci.name and len(args) == 1 and isinstance(args[0], int):
                return Flag(args[0])
            if isinstance(n.func, ast.Attribute) and not args:
                base = self.ev(n.func.value, env, f)
                g = self.ci.find_method(n.func.attr) if isinstance(base, Flag) else None
                if g is not None and not g.node.decorator_list:
                    return self.call(g, base)
            raise _Unknown('call %s' % ast.unparse(n))
        raise _Unknown(ast.unparse(n))

    def comp(self, n, i, env, f, out):
        if i == len(n.generators):
            out.append(self.ev(n.elt, env, f))
            return
        g = n.generators[i]
        if not isinstance(g.target, ast.Name):
            raise _Unknown('comprehension target')
        for x in self.iterable(self.ev(g.iter, env, f)):
            env[g.target.id] = x
            if all(self.ev(c, env, f) for c in g.ifs):
                self.comp(n, i + 1, env, f, out)

    def binop(self, op, l, r):
        if not (isinstance(l, int) and isinstance(r, int)):
            raise _Unknown('operands of %s' % type(op).__name__)
        flag = isinstance(l, Flag) or isinstance(r, Flag)
        fn = {ast.BitAnd: lambda a, b: a & b, ast.BitOr: lambda a, b: a | b, ast.BitXor: lambda a, b: a ^ b,
              ast.Add: lambda a, b: a + b, ast.Sub: lambda a, b: a - b, ast.Mult: lambda a, b: a * b,
              ast.LShift: lambda a, b: a << b, ast.RShift: lambda a, b: a >> b}.get(type(op))
        if fn is None:
            raise _Unknown('operator %s' % type(op).__name__)
        v = fn(int(l), int(r))
        return Flag(v) if flag and isinstance(op, (ast.BitAnd, ast.BitOr, ast.BitXor)) else v

    def compare(self, op, l, r):
        if isinstance(op, (ast.In, ast.NotIn)):
            if isinstance(r, Flag):
                if not isinstance(l, int) or isinstance(l, bool):
                    raise _Unknown('containment of %r' % (l,))
                res = (int(l) & int(r)) == int(l)          # Flag.__contains__: every bit of l is set in r
            elif isinstance(r, (tuple, frozenset)):
                res = any(self.same(l, x) for x in r)
            else:
                raise _Unknown('membership in %r' % (r,))
            return res if isinstance(op, ast.In) else not res
        if isinstance(op, (ast.Eq, ast.Is)):
            return self.same(l, r)
        if isinstance(op, (ast.NotEq, ast.IsNot)):
            return not self.same(l, r)
        if isinstance(l, int) and isinstance(r, int):
            if isinstance(op, ast.Gt):
                return int(l) > int(r)
            if isinstance(op, ast.GtE):
                return int(l) >= int(r)
            if isinstance(op, ast.Lt):
                return int(l) < int(r)
            if isinstance(op, ast.LtE):
                return int(l) <= int(r)
        raise _Unknown('comparison %s' % type(op).__name__)

    @staticmethod
    def same(l, r):
        # members are singletons looked up by value (assumption echoed by C17): identity == equality of the bit sets
        if isinstance(l, int) and isinstance(r, int) and not isinstance(l, bool) and not isinstance(r, bool):
            return int(l) == int(r)
        if l is None or r is None or isinstance(l, bool) or isinstance(r, bool):
            return l is r
        return l == r


class Predicate(object):
    """Truth table of SecurityIssues.<predicate> over all subsets of the declared single-bit members."""
    def __init__(self, prog):
        self.ci, self.mem = _issues(prog)
        self.f = self.ci.methods.get(PREDICATE)
        if self.f is None:
            raise AnalysisError('SecurityIssues.%s vanished' % PREDICATE)
        self.construct = 'SecurityIssues.%s' % PREDICATE
        self.fn = FlagFn(prog, self.ci, self.mem)
        self.bits = sorted(v for v in self.mem.values() if v and (v & (v - 1)) == 0)
        if len(self.bits) > 14:
            raise AnalysisError('SecurityIssues has %d flag bits: truth table too large' % len(self.bits))
        self.cache = {}
        rets = [n for n in ast.walk(self.f.node) if isinstance(n, ast.Return) and n.value is not None]
        self.text = ast.unparse(rets[-1].value) if rets else '<no return>'

    def __call__(self, value):
        if value not in self.cache:
            try:
                self.cache[value] = bool(self.fn.call(self.f, value))
            except _Unknown as ex:
                raise AnalysisError('verdict predicate has an unrecognised shape: %s' % ex)
        return self.cache[value]

    def subsets(self):
        for r in range(len(self.bits) + 1):
            for c in itertools.combinations(self.bits, r):
                v = 0
                for b in c:
                    v |= b
                yield v

    def name(self, v):
        return '|'.join(n for n, b in self.mem.items() if b and (b & (b - 1)) == 0 and v & b) or 'OK'

    def nonmonotone_witness(self):
        for a in self.subsets():                    # by size: the smallest witness first
            if self(a):
                for b in self.bits:
                    if not a & b and not self(a | b):
                        return a, a | b
        return None

    def mask(self):
        m = 0
        for b in self.bits:
            if self(b):
                m |= b
        return m

    def eval_text(self, text):
        """Value of a rendered constant expression such as SecurityIssues(255) / SecurityIssues.WrongSig | ..."""
        try:
            return self.fn.ev(ast.parse(text.strip(), mode='eval').body, {}, None)
        except (_Unknown, SyntaxError):
            return None


def predicate(prog):
    p = getattr(prog, '_verdict_predicate', None)
    if p is None:
        p = Predicate(prog)
        try:
            prog._verdict_predicate = p
        except Exception:
            pass
    return p


def check_monotone(rep, prog, rid):
    P = predicate(prog)
    rep.saw(fn=P.f)
    vals = set(P(a) for a in P.subsets())
    if len(vals) == 1:
        rep.violation(rid, P.construct, 'return %s' % P.text, 'verdict predicate is constant %s' % vals.pop(), where=P.f.where, found=P.text)
        return None
    w = P.nonmonotone_witness()
    if w is not None:
        k, k2 = w
        rep.violation(rid, P.construct, 'return %s' % P.text,
                      'verdict predicate is not monotone in the issue set: %s fails but %s passes' % (P.name(k), P.name(k2)),
                      where=P.f.where, expected='a bit-mask test such as bool(self & MASK)', found=P.text,
                      scenario='witness %s -> %s' % (P.name(k), P.name(k2)))
        return None
    m = P.mask()
    rep.ok(rid, P.construct, 'monotone over all %d issue sets; single failing members mask=%#x (%s)' % (2 ** len(P.bits), m, P.name(m)))
    return m


def check_mask_contains(rep, prog, rid, required, forbidden=()):
    P = predicate(prog)
    mask = P.mask()
    for name in required:
        if name not in P.mem:
            raise AnalysisError('SecurityIssues.%s vanished' % name)
        rep.check(P(P.mem[name]), rid, P.construct, 'mask lacks %s' % name,
                  '%s must disqualify a verification' % name, where=P.f.where, expected='%s in the failing mask' % name,
                  found='mask=%#x' % mask, scenario=name)
    adv = 0
    for name in forbidden:
        if name in P.mem:
            adv |= P.mem[name]
            rep.check(not P(P.mem[name]), rid, P.construct, 'mask contains advisory %s' % name,
                      '%s is advisory only and must not fail a verification on its own' % name, where=P.f.where,
                      found='mask=%#x' % mask, scenario=name)
    if adv and not (adv & mask) and P.nonmonotone_witness() is None:
        bad = next((a for a in P.subsets() if a and not (a & ~adv) and P(a)), None)
        rep.check(bad is None, rid, P.construct, 'advisory combination %s fails' % (P.name(bad) if bad else ''),
                  'issues that are advisory only must not fail a verification in any combination', where=P.f.where,
                  found=P.name(bad) if bad else None, scenario='advisory only')


# ------------------------------------------------------------------------------------------------ the record
class RecordModel(object):
    """How SignatureVerification.add_sigsubj builds a record: namedtuple fields (by position / keyword) <- the caller's values
    (by parameter position), and the collection the record is added to."""
    def __init__(self, prog):
        self.prog = prog
        self.ci = prog.cls('pgpy.types', 'SignatureVerification')
        self.f = prog.method('pgpy.types', 'SignatureVerification', 'add_sigsubj')
        p = self.f.params
        if len(p) < 1 + len(ROLES):
            raise AnalysisError('add_sigsubj no longer takes (signature, by, subject, issues)')
        self.params = p[1:1 + len(ROLES)]
        self.tuples = {}
        for c in self.ci.mro():
            for k, v in c.attrs.items():
                if isinstance(v, ast.Call) and (dotted(v.func) or '').split('.')[-1] == 'namedtuple' and len(v.args) == 2 and k not in self.tuples:
                    try:
                        fl = ast.literal_eval(v.args[1])
                    except Exception:
                        continue
                    self.tuples[k] = fl.replace(',', ' ').split() if isinstance(fl, str) else list(fl)
        # a record class local to SignatureVerification: `class X(namedtuple(...))` with computed properties / methods
        self.rec_props = {}        # record class attribute -> FunctionInfo of a property getter defined on the record class
        for c in self.ci.mro():
            for st in c.node.body:
                if not isinstance(st, ast.ClassDef) or st.name in self.tuples:
                    continue
                for b in st.bases:
                    if isinstance(b, ast.Call) and (dotted(b.func) or '').split('.')[-1] == 'namedtuple' and len(b.args) == 2:
                        try:
                            fl = ast.literal_eval(b.args[1])
                        except Exception:
                            continue
                        self.tuples[st.name] = fl.replace(',', ' ').split() if isinstance(fl, str) else list(fl)
                        for d in st.body:
                            if isinstance(d, ast.FunctionDef) and any(dotted(x) == 'property' for x in d.decorator_list):
                                self.rec_props[d.name] = FunctionInfo(d, c.module, None)
        self.paths = []            # (explicit verdict given?, {field: text}, collection path)
        for given in (False, True):
            args = {n: Sym('<%s>' % r, nonnull=True) for n, r in zip(self.params, ROLES)}
            if not given:
                args[self.params[3]] = self._declared_default(self.params[3])
            for s in Interp(prog, Scenario(args=args, inline=noinline)).run(self.f):
                if s.raised is not None:
                    continue
                self.paths.append((given,) + self._record_of(s, p[0]))
        colls = set(c for _, _, c in self.paths)
        if len(colls) != 1 or None in colls:
            raise AnalysisError('add_sigsubj: cannot tell which collection the record is added to (%s)' % sorted(map(str, colls)))
        self.coll = colls.pop()
        self.fields = None
        for k, fl in self.tuples.items():
            self.fields = fl if self.fields is None else self.fields

    def _declared_default(self, name):
        """The value a caller that passes no verdict gets: the parameter's declared default (not assumed to be None)."""
        a = self.f.node.args
        pos = [x.arg for x in a.args]
        dflt = dict(zip(pos[len(pos) - len(a.defaults):], a.defaults))
        for x, d in zip(a.kwonlyargs, a.kw_defaults):
            if d is not None:
                dflt[x.arg] = d
        if name not in dflt:
            raise AnalysisError('add_sigsubj: the verdict parameter has no default any more')
        try:
            return Const(ast.literal_eval(dflt[name]))
        except Exception:
            v = predicate(self.prog).fn
            try:
                return Const(int(v.ev(dflt[name], {}, self.f)))
            except Exception:
                raise AnalysisError('add_sigsubj: default of the verdict parameter is not a constant: %s' % ast.unparse(dflt[name]))

    def _record_of(self, s, selfname):
        recs = [c for c in s.calls if c[0].startswith(selfname + '.') and c[0][len(selfname) + 1:] in self.tuples]
        if len(recs) != 1:
            return None, None
        ft, args, kw, line, node = recs[0]
        fl = self.tuples[ft[len(selfname) + 1:]]
        fields = dict(zip(fl, args))
        for k, v in kw.items():
            fields[k] = v
        rtext = '%s(' % ft
        coll = None
        for ft2, args2, kw2, line2, node2 in s.calls:
            if ft2.endswith('.append') and len(args2) == 1 and args2[0].startswith(rtext):
                coll = ft2[:-len('.append')]
        for path, vt, line2, v in s.stores:
            if vt.replace(' ', '').startswith('(%s+[%s' % (path, rtext)):
                coll = path
        return fields, coll


def record_model(prog):
    m = getattr(prog, '_verdict_record', None)
    if m is None:
        m = RecordModel(prog)
        try:
            prog._verdict_record = m
        except Exception:
            pass
    return m


def check_fail_closed(rep, prog, rid):
    """SignatureVerification.add_sigsubj: a record added without an explicit verdict must be a failing one; the record keeps
    the caller's signature / key / subject / verdict in the fields of those names."""
    M = record_model(prog)
    rep.saw(fn=M.f)
    P = predicate(prog)
    construct = 'SignatureVerification.add_sigsubj'
    seen_default = False
    for given, fields, coll in M.paths:
        if fields is None:
            raise AnalysisError('add_sigsubj no longer builds exactly one namedtuple record per path')
        want = {r: '<%s>' % r for r in ROLES[:3]}
        if given:
            want['issues'] = '<issues>'
        got = {r: fields.get(r) for r in want}
        rep.check(got == want, rid, construct, 'record fields %s' % sorted(fields.items()),
                  'the record must store the signature / key / subject%s handed in by position in the fields of the same name' %
                  (' / verdict' if given else ''), where=M.f.where, expected=want, found=got,
                  scenario='explicit verdict' if given else 'default verdict')
        if given:
            continue
        seen_default = True
        a0 = fields.get('issues')
        val = P.eval_text(a0) if a0 is not None else None
        if val is None or not isinstance(val, int):
            raise AnalysisError('default verdict of add_sigsubj not a foldable SecurityIssues constant: %s' % a0)
        if P.nonmonotone_witness() is not None:
            # a non-monotone predicate is reported by C17.1; here only require a non-OK default
            rep.check(int(val) != 0, rid, construct, 'default issues = %s' % a0,
                      'a record without an explicit verdict must not default to OK', where=M.f.where, found=a0)
        else:
            rep.check(P(int(val)), rid, construct, 'default issues = %s' % a0,
                      'a record added without an explicit verdict must count as a bad signature (fail closed)',
                      where=M.f.where, expected='the verdict predicate holds for the default', found='%s (=%#x), failing members=%#x' % (a0, int(val), P.mask()))
    if not seen_default:
        raise AnalysisError('add_sigsubj: no path builds a record when no verdict is given')


# ------------------------------------------------------------------------------------------------ partition
ROWS = [{'I': False, 'F': False}, {'I': True, 'F': False}, {'I': True, 'F': True}]
ROWNAME = ['issues=OK', 'advisory issues only', 'disqualifying issues']
_OK = r'(?:SecurityIssues\.OK|SecurityIssues\(0\)|0)'


def _record_oracle(row, fields):
    """Truth assignment to the atoms over a record variable $k: its verdict field (by name or namedtuple index) truthy,
    the predicate of it, and comparisons of it with the OK member."""
    idx = fields.index('issues') if fields and 'issues' in fields else None
    v = r'\$[\d.]+(?:\.issues%s)' % (r'|\[%d\]' % idx if idx is not None else '')
    re_i = re.compile(r'^%s$' % v)
    re_f = re.compile(r'^%s\.%s$' % (v, PREDICATE))
    re_c = re.compile(r'^\((?:(?:%s) (is not|is|==|!=) %s|%s (is not|is|==|!=) (?:%s))\)$' % (v, _OK, _OK, v))

    def oracle(t):
        if re_f.match(t):
            return row['F']
        if re_i.match(t):
            return row['I']
        m = re_c.match(t)
        if m:
            op = m.group(1) or m.group(2)
            return (not row['I']) if op in ('is', '==') else row['I']
        return None
    return oracle


def _unwrap_iter(t):
    """iter(X) / list(X) / tuple(X) of an iterable value X iterate X."""
    while True:
        m = re.match(r'^(?:iter|list|tuple)\((.*)\)$', t)
        if not m or not _balanced(m.group(1)):
            return t
        t = m.group(1)


def _selected(prog, f, row, M):
    """Does the selector yield a record of this row?  True / False; AnalysisError when the shape is not understood."""
    sc = Scenario(oracle=_record_oracle(row, M.fields), inline=noinline, decide_filters=True)
    outs = Interp(prog, sc).run(f)
    coll = M.coll.replace(M.f.params[0] + '.', f.params[0] + '.', 1)
    whole = 'EACH($1 in %s;$1)' % coll
    res = set()
    for s in outs:
        if s.raised is not None:
            continue
        ys = [render(y) for y in s.yields]
        if not ys and s.ret is not None and not (isinstance(s.ret, Const) and s.ret.value is None):
            ys = [render(s.ret)]            # a plain function returning the iterable
        ys = [alpha(_unwrap_iter(y[1:] if y.startswith('*') else y)) for y in ys]
        ys = [y for y in ys if y not in ('[]', '()')]
        if not ys:
            res.add(False)
        elif ys == [whole]:
            res.add(True)
        elif len(ys) == 1 and re.match(r'^EACH\(\$1 in SLICE\(%s;[^;]*;[^;]*\);\$1\)$' % re.escape(coll), ys[0]):
            return ('partial', ys[0])           # only a slice of the records is examined: some record is listed nowhere
        else:
            raise AnalysisError('SignatureVerification.%s: per-record selection not understood: %s' % (f.name, ys))
    if len(res) != 1:
        raise AnalysisError('SignatureVerification.%s: the per-record condition has an atom that is not over the record verdict (row %s)' % (f.name, row))
    return res.pop()


def _bool_row(prog, f, row, M):
    """Effect of a record of this row on truthiness: True = keeps the result truthy, False = makes it falsy,
    ('any', text) when the aggregation is not a conjunction over the records."""
    sc = Scenario(oracle=_record_oracle(row, M.fields), inline=noinline, decide_filters=True)
    outs = Interp(prog, sc).run(f)
    coll = M.coll.replace(M.f.params[0] + '.', f.params[0] + '.', 1)
    inloop, final = set(), set()
    for s in outs:
        if s.raised is not None:
            continue
        t = alpha(render(s.ret)) if s.ret is not None else 'None'
        m = re.match(r'^(not )?(all|any)\(EACH\(\$1 in %s;(True|False)\)\)$' % re.escape(coll), t)
        if m:
            b = m.group(3) == 'True'
            if (m.group(2) == 'all') == bool(m.group(1)):
                return ('any', t)                   # any(..) / not all(..): not "every record is good"
            return b if m.group(2) == 'all' else (not b)
        if t in ('True', 'False'):
            in_loop = any(fc[0] == 'in loop over %s' % coll for fc in s.facts)
            (inloop if in_loop else final).add(t == 'True')
            continue
        raise AnalysisError('SignatureVerification.%s: aggregation over the records not understood: %s' % (f.name, t))
    if final != {True}:
        return ('any', 'result without a bad record: %s' % sorted(final))
    if True in inloop:
        return ('any', 'a single record decides truthiness')
    return False not in inloop



# ---- concrete evaluation of the selectors on small record lists (checker-side, finite: lists of 0, 1, 2 records over the rows)
class _Rec(object):
    """A record whose verdict field is a concrete flag value."""
    def __init__(self, value, ident):
        self.value, self.ident, self.issues = value, ident, Flag(value)
        self.other = {r: _Opaque('%s#%s' % (r, ident)) for r in ROLES}


class _Opaque(object):
    def __init__(self, name):
        self.name = name


class _Gen(tuple):
    """Result of a generator selector: iterable once is not modelled, but a generator object is always truthy."""
    def __bool__(self):
        return True


class _SelfObj(object):
    """An instance of the class under evaluation; .records is its (mutable) record list."""
    def __init__(self):
        self.records = []
        self.attrs = {}         # further instance attributes (caches, flags) maintained by the class's own methods


class _Raised(Exception):
    pass


class _Bound(object):
    """A method of the class taken as a value."""
    def __init__(self, g, via_class=False):
        self.g, self.via_class = g, via_class


class _Lam(object):
    def __init__(self, node, env, f):
        self.node, self.env, self.f = node, env, f


class RecFn(FlagFn):
    """Evaluates SignatureVerification selectors / __bool__ on a concrete list of records (one per truth-table row)."""
    def __init__(self, prog, M, P):
        FlagFn.__init__(self, prog, P.ci, P.mem)
        self.M = M
        self.P = P
        self.sv = M.ci
        self.collattr = M.coll.split('.', 1)[1] if '.' in M.coll else None
        self.ys = None
        self.SELF = _SelfObj()
        self.made = []
        self.probe = False          # evaluate __bool__ between mutations (histories bool(); mutate; bool())
        self.fallback = {}          # selector name -> row table decided by the interpreter (used when its body is outside this language)

    @property
    def records(self):
        return self.SELF.records

    def build(self, values, prefix=''):
        """A fresh instance holding one record per verdict value, built the way the library builds it: __init__, then one
        add_sigsubj per record (so that flags / caches the methods maintain are in the state they would really be in).
        Falls back to placing the records into the collection directly when a mutator is outside the evaluator's language."""
        obj = _SelfObj()
        saved = self.SELF
        self.SELF = obj
        try:
            self.made = []
            init = self.sv.find_method('__init__')
            if init is not None and init.cls is not None and init.cls.module is self.sv.module:
                self.apply(_Bound(init), [])
            if not isinstance(obj.records, list) or obj.records:
                raise _Unknown('__init__ does not start with an empty record list')
            self._probe()
            for i, v in enumerate(values):
                self.apply(_Bound(self.M.f), [_Opaque('signature'), _Opaque('by'), _Opaque('subject'), Flag(v)])
                self._probe()
            if [r.value for r in obj.records if isinstance(r, _Rec)] != list(values) or len(obj.records) != len(values):
                raise _Unknown('add_sigsubj does not append one record per call')
            for i, r in enumerate(obj.records):
                r.ident = '%s%d' % (prefix, i) if prefix else i
        except (_Unknown, _Raised):
            obj = _SelfObj()
            obj.records = [_Rec(v, '%s%d' % (prefix, i) if prefix else i) for i, v in enumerate(values)]
        finally:
            self.SELF = saved
        return obj

    def _probe(self):
        """History mode: truthiness is asked between the mutations (if / assert / repr do that), so that whatever __bool__ caches
        is in place when the next mutator runs."""
        if not self.probe:
            return
        bf = self.sv.find_method('__bool__')
        if bf is not None:
            try:
                self.method(bf)
            except _Unknown:
                pass

    def run(self, f, records):
        """records: verdict values (the instance is built through the class's mutators) or ready _Rec objects."""
        records = list(records)
        if records and isinstance(records[0], _Rec):
            self.SELF = _SelfObj()
            self.SELF.records = records
        else:
            self.SELF = self.build(records)
        return self.method(f)

    def run_binary(self, f, mine, theirs):
        """Evaluate a binary method (self, other) with both operands instances of the class; returns (result, other object)."""
        self.SELF = self.build(mine, 'a')
        other = self.build(theirs, 'b')
        if len(f.params) != 2:
            raise _Unknown('signature of %s' % f.name)
        return self.apply(_Bound(f), [other]), other

    def stmt(self, st, env, f):
        if isinstance(st, ast.Raise):
            raise _Raised(ast.unparse(st))
        if isinstance(st, ast.Assign) and len(st.targets) == 1 and isinstance(st.targets[0], ast.Attribute):
            base = self.ev(st.targets[0].value, env, f)
            if isinstance(base, _SelfObj) and st.targets[0].attr == self.collattr:
                v = self.ev(st.value, env, f)
                if not isinstance(v, list):
                    v = list(self.iterable(v))
                base.records = v
                return
            if isinstance(base, _SelfObj):
                base.attrs[st.targets[0].attr] = self.ev(st.value, env, f)
                return
            raise _Unknown('store to %s' % ast.unparse(st.targets[0]))
        if isinstance(st, ast.AugAssign) and isinstance(st.target, ast.Attribute) and not isinstance(st.op, ast.Add):
            base = self.ev(st.target.value, env, f)
            if isinstance(base, _SelfObj) and st.target.attr in base.attrs:
                base.attrs[st.target.attr] = self.binop(st.op, base.attrs[st.target.attr], self.ev(st.value, env, f))
                return
        if isinstance(st, ast.AugAssign) and isinstance(st.op, ast.Add):
            cur = self.ev(ast.Attribute(value=st.target.value, attr=st.target.attr, ctx=ast.Load()) if isinstance(st.target, ast.Attribute)
                          else ast.Name(id=st.target.id, ctx=ast.Load()) if isinstance(st.target, ast.Name) else st.target, env, f)
            if isinstance(cur, list):
                cur.extend(self.iterable(self.ev(st.value, env, f)))       # list += iterable mutates the list in place (aliases see it)
                return
        return FlagFn.stmt(self, st, env, f)

    def method(self, f):
        if self.depth > 4:
            raise _Unknown('recursion')
        is_gen = any(isinstance(n, (ast.Yield, ast.YieldFrom)) for n in ast.walk(f.node))
        saved, self.ys = self.ys, []
        self.depth += 1
        ret = None
        try:
            try:
                self.block(f.node.body, {f.params[0]: self.SELF}, f)
            except _Return as r:
                ret = r.v
            return _Gen(self.ys) if is_gen else ret
        finally:
            self.depth -= 1
            self.ys = saved

    def selector(self, name):
        g = self.sv.find_method(name)
        if g is None:
            raise _Unknown('attribute %s' % name)
        try:
            return self.method(g)
        except _Unknown:
            if name in self.fallback:
                return _Gen(r for r in self.records if self.fallback[name][_row_of(self.P, r.value)] is True)
            raise

    def ev(self, n, env, f):
        if isinstance(n, ast.Call) and isinstance(n.func, ast.Attribute) and isinstance(n.func.value, ast.Call) and \
                dotted(n.func.value.func) == 'super' and n.func.attr == '__init__':
            return None            # object.__init__: nothing of this class's state
        if isinstance(n, ast.Call) and isinstance(n.func, ast.Attribute) and n.func.attr in self.M.tuples and \
                isinstance(self.ev(n.func.value, env, f), _SelfObj):
            fl = self.M.tuples[n.func.attr]
            vals = dict(zip(fl, [self.ev(a, env, f) for a in n.args]))
            for kw in n.keywords:
                if kw.arg is None:
                    raise _Unknown('record built from **')
                vals[kw.arg] = self.ev(kw.value, env, f)
            iv = vals.get('issues')
            if set(vals) != set(fl) or not isinstance(iv, int) or isinstance(iv, bool):
                raise _Unknown('record %s' % ast.unparse(n))
            r = _Rec(int(iv), len(self.made))
            self.made.append(r)
            for k in ROLES[:3]:
                if k in vals:
                    r.other[k] = vals[k]
            return r
        if isinstance(n, ast.Yield):
            self.ys.append(self.ev(n.value, env, f) if n.value is not None else None)
            return None
        if isinstance(n, ast.YieldFrom):
            self.ys.extend(self.iterable(self.ev(n.value, env, f)))
            return None
        if isinstance(n, ast.Attribute):
            d = dotted(n)
            if not (d is not None and d.split('.')[-2:-1] == [self.ci.name]):
                base = self.ev(n.value, env, f)
                if isinstance(base, _SelfObj) and n.attr != self.collattr and n.attr in base.attrs:
                    return base.attrs[n.attr]
                if isinstance(base, _SelfObj) and base is not self.SELF:
                    if n.attr == self.collattr:
                        return base.records
                    raise _Unknown('attribute of the other operand: %s' % n.attr)
                if base is self.SELF:
                    if n.attr == self.collattr:
                        return self.records
                    g = self.sv.find_method(n.attr)
                    if g is not None and any(dotted(x) == 'property' for x in g.node.decorator_list):
                        return self.selector(n.attr)
                    if g is not None:
                        return _Bound(g)            # a method of the class used as a value (predicate of filter / map, ...)
                    raise _Unknown('attribute self.%s' % n.attr)
                if base is self.sv and self.sv.find_method(n.attr) is not None:
                    return _Bound(self.sv.find_method(n.attr), via_class=True)
                if isinstance(base, _Rec):
                    if n.attr == 'issues':
                        return base.issues
                    if n.attr in ROLES:
                        return base.other[n.attr]
                    g = self.M.rec_props.get(n.attr)
                    if g is not None:
                        # a computed property of the record class: evaluated on this record
                        if self.depth > 4:
                            raise _Unknown('recursion')
                        self.depth += 1
                        try:
                            self.block(g.node.body, {g.params[0]: base}, g)
                        except _Return as r:
                            return r.v
                        finally:
                            self.depth -= 1
                        return None
                    raise _Unknown('record field %s' % n.attr)
        if isinstance(n, ast.Subscript):
            base = self.ev(n.value, env, f)
            if isinstance(base, _Rec):
                idx = self.ev(n.slice, env, f) if not isinstance(n.slice, ast.Slice) else None
                if self.M.fields and isinstance(idx, int) and 0 <= idx < len(self.M.fields) and self.M.fields[idx] == 'issues':
                    return base.issues
                raise _Unknown('record index')
            if isinstance(base, (list, tuple)):
                if isinstance(n.slice, ast.Slice):
                    lo, hi, stp = [self.ev(x, env, f) if x is not None else None for x in (n.slice.lower, n.slice.upper, n.slice.step)]
                    if all(x is None or (isinstance(x, int) and not isinstance(x, bool)) for x in (lo, hi, stp)):
                        return list(base)[lo:hi:stp]
                else:
                    idx = self.ev(n.slice, env, f)
                    if isinstance(idx, int) and not isinstance(idx, bool) and -len(base) <= idx < len(base):
                        return list(base)[idx]
            raise _Unknown(ast.unparse(n))
        if isinstance(n, ast.Call) and not n.keywords:
            fn = dotted(n.func)
            if fn == 'next' and len(n.args) in (1, 2):
                it = self.iterable(self.ev(n.args[0], env, f))
                if it:
                    return it[0]
                if len(n.args) == 2:
                    return self.ev(n.args[1], env, f)
                raise _Unknown('next() of an empty iterator')
            if fn == 'iter' and len(n.args) == 1:
                return _Gen(self.iterable(self.ev(n.args[0], env, f)))
            if fn == 'list' and len(n.args) == 1:
                return list(self.iterable(self.ev(n.args[0], env, f)))
            if fn == 'len' and len(n.args) == 1:
                v = self.ev(n.args[0], env, f)
                if isinstance(v, _Gen):
                    raise _Unknown('len() of a generator')
                return len(self.iterable(v))
            if fn == 'sum' and len(n.args) == 1:
                vals = self.iterable(self.ev(n.args[0], env, f))
                if all(isinstance(v, int) for v in vals):
                    return sum(int(v) for v in vals)
                raise _Unknown('sum of non-integers')
            if fn in ('filter', 'itertools.filterfalse', 'filterfalse') and len(n.args) == 2:
                pred = self.ev(n.args[0], env, f)
                items = self.iterable(self.ev(n.args[1], env, f))
                keep = fn == 'filter'
                return _Gen(x for x in items if bool(x if pred is None else self.apply(pred, [x])) == keep)
            if fn == 'map' and len(n.args) == 2:
                pred = self.ev(n.args[0], env, f)
                return _Gen(self.apply(pred, [x]) for x in self.iterable(self.ev(n.args[1], env, f)))
            if isinstance(n.func, ast.Attribute):
                base = self.ev(n.func.value, env, f)
                if base is self.SELF or base is self.sv:
                    g = self.sv.find_method(n.func.attr)
                    if g is not None and not any(dotted(x) == 'property' for x in g.node.decorator_list):
                        return self.apply(_Bound(g, via_class=base is self.sv), [self.ev(a, env, f) for a in n.args])
                    raise _Unknown('call %s' % ast.unparse(n))
            if isinstance(n.func, ast.Name) and isinstance(env.get(n.func.id), (_Bound, _Lam)):
                return self.apply(env[n.func.id], [self.ev(a, env, f) for a in n.args])
        if isinstance(n, ast.Call) and isinstance(n.func, ast.Attribute) and n.func.attr in ('extend', 'append', 'insert', 'copy', 'clear') and not n.keywords:
            base = self.ev(n.func.value, env, f)
            if isinstance(base, list) and not isinstance(base, _Gen):
                args = [self.ev(a, env, f) for a in n.args]
                if n.func.attr == 'extend' and len(args) == 1:
                    base.extend(self.iterable(args[0]))
                    return None
                if n.func.attr == 'append' and len(args) == 1:
                    base.append(args[0])
                    return None
                if n.func.attr == 'insert' and len(args) == 2 and isinstance(args[0], int):
                    base.insert(args[0], args[1])
                    return None
                if n.func.attr == 'copy' and not args:
                    return list(base)
                if n.func.attr == 'clear' and not args:
                    del base[:]
                    return None
        if isinstance(n, ast.Call) and not n.keywords and dotted(n.func) == 'isinstance' and len(n.args) == 2:
            v = self.ev(n.args[0], env, f)
            c = self.ev(n.args[1], env, f)
            if isinstance(v, _SelfObj) and c is self.sv:
                return True
            raise _Unknown(ast.unparse(n))
        if isinstance(n, ast.List):
            return [self.ev(e, env, f) for e in n.elts]
        if isinstance(n, ast.BinOp) and isinstance(n.op, ast.Add):
            l, r = self.ev(n.left, env, f), self.ev(n.right, env, f)
            if isinstance(l, list) and isinstance(r, list):
                return list(l) + list(r)
            return self.binop(n.op, l, r)
        if isinstance(n, ast.Lambda):
            return _Lam(n, dict(env), f)
        if isinstance(n, ast.Name) and n.id == self.sv.name and n.id not in env:
            return self.sv
        return FlagFn.ev(self, n, env, f)

    def apply(self, fv, args):
        """Call a method of the class (bound through self / the class; static, class or instance method) or a lambda."""
        if isinstance(fv, _Lam):
            a = fv.node.args
            if a.vararg or a.kwarg or a.kwonlyargs or a.defaults or len(a.args) != len(args):
                raise _Unknown('lambda signature')
            env = dict(fv.env)
            env.update({x.arg: v for x, v in zip(a.args, args)})
            return self.ev(fv.node.body, env, fv.f)
        if not isinstance(fv, _Bound):
            raise _Unknown('call of %r' % (fv,))
        g = fv.g
        decos = [dotted(x) for x in g.node.decorator_list]
        params = list(g.node.args.args)
        env = {}
        if 'staticmethod' in decos:
            pass
        elif 'classmethod' in decos:
            env[params.pop(0).arg] = self.sv
        elif fv.via_class:
            if not args:
                raise _Unknown('unbound call')
            env[params.pop(0).arg] = args[0]
            args = args[1:]
        else:
            env[params.pop(0).arg] = self.SELF
        if g.node.args.vararg or g.node.args.kwarg or len(args) > len(params) or len(args) < len(params) - len(g.node.args.defaults):
            raise _Unknown('signature of %s' % g.name)
        for x, v in zip(params, args):
            env[x.arg] = v
        for x, d in zip(params[len(params) - len(g.node.args.defaults):], g.node.args.defaults):
            if x.arg not in env:
                env[x.arg] = self.ev(d, {}, g)
        if self.depth > 6:
            raise _Unknown('recursion')
        is_gen = any(isinstance(x, (ast.Yield, ast.YieldFrom)) for x in ast.walk(g.node))
        saved, self.ys = self.ys, []
        self.depth += 1
        ret = None
        try:
            try:
                self.block(g.node.body, env, g)
            except _Return as r:
                ret = r.v
            return _Gen(self.ys) if is_gen else ret
        finally:
            self.depth -= 1
            self.ys = saved

    def iterable(self, v):
        if isinstance(v, list):
            return list(v)
        return FlagFn.iterable(self, v)


def _values(P):
    """Representative verdict values: OK, advisory-only sets, disqualifying sets (alone and with an advisory member)."""
    adv = [b for b in P.bits if not P(b)]
    dis = [b for b in P.bits if P(b)]
    vals = [0]
    if adv:
        vals.append(adv[0])
    if len(adv) > 1:
        vals.append(adv[0] | adv[-1])
    if dis:
        vals.append(dis[0])
    if len(dis) > 1:
        vals.append(dis[-1])
    if dis and adv:
        vals.append(dis[len(dis) // 2] | adv[0])
    return vals


def _row_of(P, v):
    I = bool(v)
    F = I and P(v)          # an empty issue set is never "bad" (a predicate that holds for it is reported by C17.1)
    for i, r in enumerate(ROWS):
        if r['I'] == I and r['F'] == F:
            return i
    raise AnalysisError('no truth-table row for the issue set %s' % v)


def _record_lists(P):
    vals = _values(P)
    return [()] + [(a,) for a in vals] + [(a, b) for a in vals for b in vals]


def _listname(P, L):
    return '[%s]' % ', '.join(P.name(v) for v in L)


def _concrete_selector(E, P, f):
    """Row table of a selector from its concrete results on every record list of size <= 2 over representative verdict values;
    ('partial', why) when the listing of a record depends on anything but its row.  _Unknown when the body is outside the
    evaluator's language."""
    tbl = [None] * len(ROWS)
    res = {}
    for L in _record_lists(P):
        out = E.run(f, L)
        if out is None or not isinstance(out, (tuple, list)):
            raise _Unknown('selector result %r' % (out,))
        ids = []
        for x in out:
            if not isinstance(x, _Rec):
                raise _Unknown('selector yields %r' % (x,))
            ids.append(x.ident)
        res[L] = ids
        if len(L) == 1:
            if ids not in ([], [0]):
                return [('partial', 'a single record is listed %d times' % len(ids))] * len(ROWS)
            r = _row_of(P, L[0])
            if tbl[r] is not None and tbl[r] != (ids == [0]):
                return [('partial', 'records of the row "%s" are not treated alike (%s)' % (ROWNAME[r], P.name(L[0])))] * len(ROWS)
            tbl[r] = ids == [0]
    for L, ids in res.items():
        want = [i for i, v in enumerate(L) if tbl[_row_of(P, v)]]
        if sorted(ids) != want:
            return [('partial', 'of the records %s the entries %s are listed' % (_listname(P, L), ids))] * len(ROWS)
    if any(t is None for t in tbl):
        raise _Unknown('a row has no representative value')
    return tbl


def _concrete_bool(E, P, f):
    """Per-row effect of a record on truthiness from the concrete results on every record list of size <= 2; ('any', why) when
    the result is not the conjunction of the per-record results (or the empty result is falsy)."""
    res = {}
    for L in _record_lists(P):
        vals = []
        for probe in (False, True):
            E.probe = probe
            try:
                v = E.run(f, L)
            finally:
                E.probe = False
            if isinstance(v, _Rec) or v is None:
                raise _Unknown('truth value %r' % (v,))
            vals.append(bool(v))
        if vals[0] != vals[1]:
            return [('any', 'records %s: %s when truthiness was also asked before the last record was added, %s otherwise '
                     '(a cached verdict survives a mutation)' % (_listname(P, L), vals[1], vals[0]))] * len(ROWS)
        res[L] = vals[0]
    tbl = [None] * len(ROWS)
    for L in res:
        if len(L) == 1:
            r = _row_of(P, L[0])
            if tbl[r] is not None and tbl[r] != res[L]:
                return [('any', 'records of the row "%s" are not treated alike (%s)' % (ROWNAME[r], P.name(L[0])))] * len(ROWS)
            tbl[r] = res[L]
    if any(t is None for t in tbl):
        raise _Unknown('a row has no representative value')
    for L in sorted(res, key=len):
        if res[L] != all(tbl[_row_of(P, v)] for v in L):
            return [('any', 'records %s -> %s' % (_listname(P, L), res[L]))] * len(ROWS)
    return tbl


def _concrete_and(E, P, f):
    """__and__ on record lists of size 0..2 on both sides: the result must be the receiver, holding its records followed by those
    of the other operand.  None when that holds everywhere, else a description of the first counter-example."""
    bad = [v for v in _values(P) if v and P(v)]
    g, b = 0, (bad[0] if bad else _values(P)[-1])
    lists = [(), (g,), (b,), (g, b)]
    for A, B, probe in [(a, b, pr) for pr in (False, True) for a in lists for b in lists]:
        if True:
            mine, theirs = list(A), list(B)
            scen = '%d own record(s) & %d record(s) of the other%s' % (len(A), len(B), ', truthiness asked before merging' if probe else '')
            E.probe = probe
            try:
                res, other = E.run_binary(f, mine, theirs)
            except _Raised as ex:
                return '%s: raises %s' % (scen, ex)
            finally:
                E.probe = False
            if res is not E.SELF:
                return '%s: returns %s, not the receiver' % (scen, 'the other operand' if res is other else repr(res))
            got = [getattr(r, 'ident', '?') for r in E.SELF.records]
            want = ['a%d' % i for i in range(len(mine))] + ['b%d' % i for i in range(len(theirs))]
            if got != want:
                return '%s: the result holds %s, expected %s' % (scen, got, want)
            # whatever the class caches about its records must have been merged too: the combined object is truthy exactly when
            # none of the records it now holds is bad
            bf = E.sv.find_method('__bool__')
            if bf is not None:
                try:
                    truth = bool(E.method(bf))
                except _Unknown:
                    truth = None
                want_truth = not any(v and P(v) for v in mine + theirs)
                if truth is not None and truth != want_truth:
                    return '%s (%s & %s): the combined result is %s' % (scen, _listname(P, mine), _listname(P, theirs), 'truthy' if truth else 'falsy')
    return None


def check_partition(rep, prog, rid):
    M = record_model(prog)
    ci = M.ci
    fs = {}
    for name in ('good_signatures', 'bad_signatures', '__bool__', '__and__'):
        f = ci.methods.get(name)
        if f is None:
            raise AnalysisError('SignatureVerification.%s vanished' % name)
        rep.saw(fn=f)
        fs[name] = f
    # concrete evaluation on all record lists of size 0, 1, 2 first (also understands selectors defined through one another:
    # next(self.good_signatures, None), not list(self.bad_signatures), ...); the interpreter rows where the body is outside
    # the evaluator's small language
    P = predicate(prog)
    E = RecFn(prog, M, P)
    tables = {}
    for name in ('good_signatures', 'bad_signatures'):
        try:
            tables[name] = _concrete_selector(E, P, fs[name])
        except _Unknown:
            tables[name] = [_selected(prog, fs[name], r, M) for r in ROWS]
        E.fallback[name] = tables[name]
    good, bad = tables['good_signatures'], tables['bad_signatures']
    try:
        bl = _concrete_bool(E, P, fs['__bool__'])
    except _Unknown:
        bl = [_bool_row(prog, fs['__bool__'], r, M) for r in ROWS]
    rep.analysed['paths'] += 3 * len(_record_lists(P))
    for name, tbl in (('good_signatures', good), ('bad_signatures', bad)):
        part = [x for x in tbl if isinstance(x, tuple)]
        rep.check(not part, rid, 'SignatureVerification.%s' % name, 'records examined',
                  'every record must be listed exactly once, as good or as bad', where=fs[name].where,
                  expected='all of %s' % M.coll, found=part[0][1] if part else None)
    conj = [b for b in bl if isinstance(b, tuple)]
    rep.check(not conj, rid, 'SignatureVerification.__bool__', 'aggregation over records',
              'truthiness must require every record to be good (all(...))', where=fs['__bool__'].where, found=conj[0][1] if conj else None)
    for i, r in enumerate(ROWS):
        rep.check(good[i] == (not bad[i]), rid, 'SignatureVerification.good_signatures/bad_signatures',
                  'row %s: good=%s bad=%s' % (ROWNAME[i], good[i], bad[i]),
                  'every record must be listed exactly once, as good or as bad', where=fs['good_signatures'].where,
                  expected='good == not bad', found='good: %s ; bad: %s' % (good, bad), scenario=ROWNAME[i])
        if not isinstance(bl[i], tuple):
            rep.check(bl[i] == good[i], rid, 'SignatureVerification.__bool__',
                      'row %s: bool-element=%s good=%s' % (ROWNAME[i], bl[i], good[i]),
                      'the result is truthy exactly when no record is bad', where=fs['__bool__'].where,
                      expected='per-record condition of __bool__ == good', found=bl, scenario=ROWNAME[i])
    # the disqualifying row must be bad
    rep.check(bad[2] is True and bad[0] is False, rid, 'SignatureVerification.bad_signatures', 'rows %s' % bad,
              'a record with disqualifying issues is bad; a record with no issues is not', where=fs['bad_signatures'].where, found=bad)
    # __and__ keeps the records of both operands and returns the receiver
    f = fs['__and__']
    p = f.params
    if len(p) != 2:
        raise AnalysisError('SignatureVerification.__and__ no longer takes one operand')
    try:
        why = _concrete_and(E, P, f)
        ia = ci.find_method('__iand__')
        if why is None and ia is not None:
            why = _concrete_and(E, P, ia)          # an in-place variant must merge the same way
    except _Unknown:
        why = False
    if why is not False:
        rep.check(why is None, rid, 'SignatureVerification.__and__', 'self._subjects += other._subjects',
                  'combining two results must keep the records of both (and return the combined object)', where=f.where,
                  expected='the receiver, holding its records followed by those of the other operand', found=why)
        return
    mine = M.coll.replace(M.f.params[0] + '.', p[0] + '.', 1)
    theirs = M.coll.replace(M.f.params[0] + '.', '<other>.', 1)
    outs = Interp(prog, Scenario(args={p[1]: Sym('<other>', types={'SignatureVerification'}, nonnull=True)}, inline=noinline)).run(f)
    merged = returned = 0
    for s in outs:
        if s.raised is not None:
            continue
        returned += 1
        v = s.env.get(mine)
        cat = v is not None and render(v).replace(' ', '') == '(%s+%s)' % (mine, theirs)
        ext = any(c[0] == mine + '.extend' and c[1] == [theirs] and not c[2] for c in s.calls)
        if (cat or ext) and not (cat and ext) and s.ret is not None and render(s.ret) == p[0]:
            merged += 1
    rep.check(returned > 0 and merged == returned, rid, 'SignatureVerification.__and__', 'self._subjects += other._subjects',
              'combining two results must keep the records of both (and return the combined object)', where=f.where,
              expected='%s = %s + %s; return %s' % (mine, mine, theirs, p[0]))


# ------------------------------------------------------------------------------------------------ PGPKey.verify
def _enclosing_loops(fn_node, target):
    """For-loops of fn_node (outermost first) whose body contains the AST node `target`."""
    out = []

    def rec(n, stack):
        if n is target:
            out.extend(stack)
            return True
        for ch in ast.iter_child_nodes(n):
            if isinstance(ch, (ast.FunctionDef, ast.AsyncFunctionDef, ast.ClassDef, ast.Lambda)):
                continue
            if rec(ch, stack + [ch] if isinstance(ch, ast.For) else stack):
                return True
        return False
    rec(fn_node, [])
    return out


def record_sites(fn_node):
    """Calls <result>.add_sigsubj(...) of a function (located by what they do)."""
    return [c for c in ast.walk(fn_node) if isinstance(c, ast.Call) and isinstance(c.func, ast.Attribute) and c.func.attr == 'add_sigsubj']


def verdict_loop(fi):
    """The loop of PGPKey.verify that examines the collected pairs: the innermost loop around every record site."""
    sites = record_sites(fi.node)
    if not sites:
        raise AnalysisError('%s: no add_sigsubj record site' % fi.qualname)
    loops = set()
    for c in sites:
        enc = _enclosing_loops(fi.node, c)
        if not enc:
            raise AnalysisError('%s: a verdict is recorded outside any loop' % fi.qualname)
        loops.add(id(enc[-1]))
        loop = enc[-1]
    if len(loops) != 1:
        raise AnalysisError('%s: verdicts are recorded in %d different loops' % (fi.qualname, len(loops)))
    return loop


def loop_pair(fi, s):
    """(sig, subj) texts the verdict loop binds on this path - canonical $k_0/$k_1 for a summarised loop, the element
    values when the pair list was statically known."""
    loop = verdict_loop(fi)
    t = loop.target
    if isinstance(t, (ast.Tuple, ast.List)) and len(t.elts) == 2 and all(isinstance(e, ast.Name) for e in t.elts):
        a, b = (s.env.get(e.id) for e in t.elts)
        if a is None or b is None:
            return None
        return render(a), render(b)
    if isinstance(t, ast.Name):
        v = s.env.get(t.id)
        if v is None:
            return None
        if isinstance(v, ListV) and len(v.elems) == 2:
            return render(v.elems[0]), render(v.elems[1])
        return '%s[0]' % render(v), '%s[1]' % render(v)
    raise AnalysisError('%s: the verification loop does not bind a (signature, subject) pair' % fi.qualname)


def bit_tree(text):
    """Parse a rendered flag expression into ('|', [..]) ('&', [..]) ('or', [..]) ('and', [..]) ('~', x) ('leaf', text);
    None when it is not one."""
    t = text.strip()
    while t.startswith('(') and t.endswith(')') and _balanced(t[1:-1]):
        t = t[1:-1].strip()
    for op in ('or', 'and', '|', '&'):
        parts = _split_top(t, ' %s ' % op)
        if len(parts) > 1:
            subs = [bit_tree(p) for p in parts]
            return None if any(x is None for x in subs) else (op, subs)
    if t.startswith('~'):
        sub = bit_tree(t[1:])
        return None if sub is None else ('~', sub)
    if not t or not _balanced(t) or _split_top(t, ' ') != [t]:
        return None
    return ('leaf', t)


def _split_top(t, sep):
    parts, depth, cur, i = [], 0, '', 0
    while i < len(t):
        ch = t[i]
        if ch in '([{':
            depth += 1
        elif ch in ')]}':
            depth -= 1
        if depth == 0 and t.startswith(sep, i):
            parts.append(cur)
            cur = ''
            i += len(sep)
            continue
        cur += ch
        i += 1
    parts.append(cur)
    return parts


SOURCES = {'soundness': re.compile(r'^self\.check_soundness\(.*\)$'), 'primitives': re.compile(r'^self\.check_primitives\(\)$')}


def source_of(leaf):
    for k, rx in SOURCES.items():
        if rx.match(leaf):
            return k
    return None


def is_issue_set(text):
    """A rendered value that is a bit-combination of the key's issue sources (check_soundness / check_primitives)."""
    if PREDICATE in text:
        return False
    tr = bit_tree(text)
    if tr is None:
        return False

    def leaves(n):
        if n[0] == 'leaf':
            return [n[1]]
        if n[0] == '~':
            return leaves(n[1])
        out = []
        for x in n[1]:
            out.extend(leaves(x))
        return out
    return any(source_of(l) for l in leaves(tr))


def contributions(P, text):
    """{source: mask of its bits that can reach the value}, constant bits, problems - for a rendered issue-set expression."""
    allbits = 0
    for b in P.bits:
        allbits |= b
    tr = bit_tree(text)
    if tr is None:
        raise AnalysisError('issue set not a flag expression: %s' % text)
    problems = []

    def const(n):
        if n[0] == 'leaf':
            v = P.eval_text(n[1])
            return int(v) if isinstance(v, int) and not isinstance(v, bool) else None
        if n[0] == '~':
            v = const(n[1])
            return None if v is None else ~v
        if n[0] in ('or', 'and'):
            return None
        vals = [const(x) for x in n[1]]
        if any(v is None for v in vals):
            return None
        r = vals[0]
        for v in vals[1:]:
            r = (r | v) if n[0] == '|' else (r & v)
        return r

    def rec(n):
        c = const(n)
        if c is not None:
            return {}, c & allbits
        if n[0] == 'leaf':
            k = source_of(n[1])
            if k is None:
                if re.match(r'^self(\.[A-Za-z_]\w*)+$', n[1]):
                    # an attribute of the key object: a value stored earlier, not the key's conditions at this verification
                    problems.append('operand %s is stored state, not computed for this verification' % n[1])
                    return {}, 0
                raise AnalysisError('issue set has an operand that is neither an issue source nor a constant: %s' % n[1])
            return {k: allbits}, 0
        if n[0] in ('or', 'and'):
            # boolean short-circuit keeps ONE operand: the others are dropped depending on truthiness
            problems.append('operands are combined with `%s` (short-circuit keeps one of them), not united with |' % n[0])
            out = {}
            for x in n[1]:
                if const(x) is None:
                    for k in rec(x)[0]:
                        out[k] = 0
            return out, 0
        if n[0] == '~':
            raise AnalysisError('issue set complements a non-constant: %s' % text)
        if n[0] == '|':
            src, cb = {}, 0
            for x in n[1]:
                s2, c2 = rec(x)
                cb |= c2
                for k, m in s2.items():
                    src[k] = src.get(k, 0) | m
            return src, cb
        # '&': constants mask; two issue sources intersect (bits are dropped unless both have them)
        masks = [const(x) for x in n[1]]
        srcs = [rec(x) for x, m in zip(n[1], masks) if m is None]
        m = allbits
        for v in masks:
            if v is not None:
                m &= v
        if len(srcs) > 1:
            problems.append('sources are intersected with &')
            out = {}
            for s2, c2 in srcs:
                for k in s2:
                    out[k] = 0
            return out, 0
        s2, c2 = srcs[0]
        return {k: v & m for k, v in s2.items()}, c2 & m
    src, cb = rec(tr)
    return src, cb, problems, allbits


class _Asked(list):
    """Issue-set texts the predicate was asked of; .truth: issue-set texts whose truthiness was tested."""
    def __init__(self):
        list.__init__(self)
        self.truth = []


def run_verify(prog, detached=False, I=None, F=None, V=None, subject_type=None):
    """Interpret PGPKey.verify with the atoms pinned: I issue set truthy, F predicate of the issue set, V library verdict truthy
    (None = explore both).  Returns (fi, paths, texts the predicate was asked of)."""
    fi = prog.method('pgpy.pgp', 'PGPKey', 'verify')
    p = fi.params
    if len(p) < 3:
        raise AnalysisError('PGPKey.verify no longer takes (subject, signature)')
    asked = _Asked()

    def oracle(t):
        if t.startswith('self._key.verify(') and _balanced(t[len('self._key.verify('):-1]) and t.endswith(')'):
            return V
        if t.endswith('.' + PREDICATE):
            base = t[:-len(PREDICATE) - 1]
            if is_issue_set(base):
                if base not in asked:
                    asked.append(base)
                return F
            return None
        if is_issue_set(t):
            if t not in asked.truth:
                asked.truth.append(t)
            return I
        return None
    if detached:
        args = {p[1]: Sym(p[1], types={'bytes'}, nonnull=True), p[2]: Sym(p[2], types={'PGPSignature'}, nonnull=True)}
    else:
        args = {p[1]: Sym(p[1], types={subject_type or 'PGPUID'}, nonnull=True), p[2]: Const(None)}
    outs = Interp(prog, Scenario(args=args, oracle=oracle, inline=noinline)).run(fi)
    return fi, outs, asked


def record_args(prog, call):
    """Positional view [signature, by, subject, issues] of an add_sigsubj call (keywords mapped through its parameters)."""
    M = record_model(prog)
    ft, args, kw, line, node = call
    out = list(args[:len(ROLES)]) + [None] * (len(ROLES) - len(args))
    for k, v in kw.items():
        if k in M.params:
            out[M.params.index(k)] = v
    return out


def collect(outs):
    """Union over paths of (crypto calls, record calls, subkey delegations) of PGPKey.verify, each with the loop pair of its path."""
    crypto, recs, deleg = [], [], []
    for s in outs:
        for c in s.calls:
            ft = c[0]
            if ft == 'self._key.verify':
                if c not in [x for x, _ in crypto]:
                    crypto.append((c, s))
            elif ft.endswith('.add_sigsubj'):
                if c not in [x for x, _ in recs]:
                    recs.append((c, s))
            elif ft.endswith('.verify') and ft.startswith('self.subkeys['):
                if c not in [x for x, _ in deleg]:
                    deleg.append((c, s))
    return crypto, recs, deleg


# ------------------------------------------------------------------------------------------------ one record
def check_one_record(rep, prog, rid):
    fi = prog.method('pgpy.pgp', 'PGPKey', 'verify')
    g = CFG(fi.node)
    loop = verdict_loop(fi)
    heads = [n for n in g.nodes if n.kind == 'loop' and n.ast is loop]
    if len(heads) != 1:
        raise AnalysisError('PGPKey.verify: the verification loop has no single CFG node')
    head = heads[0]

    def records(node):
        if node.ast is None or node.kind not in ('stmt',):
            return 0
        c = 0
        for call in calls_in(node.ast):
            if isinstance(call.func, ast.Attribute) and call.func.attr == 'add_sigsubj':
                c += 1
        if isinstance(node.ast, ast.AugAssign) and isinstance(node.ast.op, ast.BitAnd):
            if any(isinstance(call.func, ast.Attribute) and call.func.attr == 'verify' for call in calls_in(node.ast.value)):
                c += 1
        return c
    body_start = [m for m, lab in g.succ[head.id] if lab == 'T']
    paths = []
    for b in body_start:
        paths.extend(g.paths(b, {head.id, g.exit.id, g.raise_exit.id}, limit=5000))
    rep.analysed['paths'] += len(paths)
    if not paths:
        raise AnalysisError('PGPKey.verify: no path through the verification loop body')
    bad = 0
    for p in paths:
        end = p[-1]
        n = sum(records(g.nodes[i]) for i in p)
        if end == g.raise_exit.id:
            continue
        if end == g.exit.id:
            # the loop is left by return / break-to-return from inside its body: the remaining pairs are never examined
            bad += 1
            lines = [g.nodes[i].lineno for i in p if g.nodes[i].ast is not None]
            rep.violation(rid, 'PGPKey.verify', 'loop left early',
                          'the function returns from inside the verification loop (lines %s): signatures after this one are never examined or listed' % lines,
                          where=fi.where, expected='every collected (signature, subject) pair is examined', found='return inside the loop body')
            continue
        if n != 1:
            bad += 1
            lines = [g.nodes[i].lineno for i in p if g.nodes[i].ast is not None]
            rep.violation(rid, 'PGPKey.verify', 'loop path with %d records' % n,
                          'an examined signature is recorded %d times on a path through the loop body (lines %s)' % (n, lines),
                          where=fi.where, expected='exactly one add_sigsubj / delegated verify per examined signature', found=n)
    if not bad:
        rep.ok(rid, 'PGPKey.verify', '%d paths through the loop body, each records exactly once or raises' % len(paths))
    # the result object returned is the one the records were added to
    recv = set(dotted(c.func.value) for c in record_sites(fi.node))
    rets = [n for n in g.nodes if n.kind == 'stmt' and isinstance(n.ast, ast.Return)]
    rep.check(len(recv) == 1 and None not in recv and bool(rets) and all(dotted(r.ast.value) in recv for r in rets if r.ast.value is not None) and
              any(r.ast.value is not None for r in rets), rid, 'PGPKey.verify',
              'return value', 'verify must return the object the records were added to', where=fi.where,
              expected='return %s' % sorted(map(str, recv)), found=[ast.unparse(r.ast) for r in rets])


def or_operands(text):
    """Split a rendered (a | b) | c text into its top-level operands."""
    t = text.strip()
    while t.startswith('(') and t.endswith(')') and _balanced(t[1:-1]):
        t = t[1:-1].strip()
    parts, depth, cur = [], 0, ''
    for ch in t:
        if ch in '([{':
            depth += 1
        elif ch in ')]}':
            depth -= 1
        if ch == '|' and depth == 0:
            parts.append(cur.strip())
            cur = ''
        else:
            cur += ch
    parts.append(cur.strip())
    if len(parts) == 1:
        return [parts[0]]
    out = []
    for p in parts:
        out.extend(or_operands(p))
    return out


def _balanced(s):
    d = 0
    for ch in s:
        if ch in '([{':
            d += 1
        elif ch in ')]}':
            d -= 1
            if d < 0:
                return False
    return d == 0


def check_crypto_arm_verdict(rep, prog, rid):
    """On the arm that runs the cryptographic check: a falsy result is always recorded with WrongSig in the issue set,
    a truthy one never with a disqualifying member; the record names the pair whose hashdata was checked."""
    P = predicate(prog)
    for truthy in (False, True):
        fi, outs, _ = run_verify(prog, F=False, V=truthy)
        rep.analysed['paths'] += len(outs)
        crypto, recs, _ = collect(outs)
        if not recs:
            rep.violation(rid, 'PGPKey.verify', 'no record after the crypto check', 'the cryptographic result is never recorded', where=fi.where)
            continue
        for call, s in recs:
            a = record_args(prog, call)
            v = a[3]
            w = '%s:%d' % (fi.module.relpath, call[3])
            val = P.eval_text(v) if v is not None else None
            ops = [o.replace('SecurityIssues.', '') for o in or_operands(v or '')]
            if not truthy:
                wrong = P.mem.get('WrongSig')
                has = (isinstance(val, int) and wrong and (val & wrong)) or 'WrongSig' in ops
                rep.check(v is not None and bool(has), rid, 'PGPKey.verify', 'library rejects -> recorded %s' % v,
                          'a cryptographically wrong signature must always be recorded with WrongSig (whatever else is known about the key)',
                          where=w, expected='SecurityIssues.WrongSig (possibly | more)', found=v, scenario='library verify rejects')
            else:
                bad = [o for o in ops if o in DISQUALIFYING]
                if isinstance(val, int):
                    bad = [n for n in DISQUALIFYING if val & P.mem.get(n, 0)]
                rep.check(v is not None and not bad, rid, 'PGPKey.verify', 'library accepts -> recorded %s' % v,
                          'an accepted signature on a non-disqualified key must not be recorded as failing', where=w, found=v,
                          scenario='library verify accepts')
            # the pair named in the record is the pair whose hashdata was handed to the key material on this path
            pairs = set()
            for s2 in outs:
                if call not in s2.calls:
                    continue
                for c in s2.calls:
                    if c[0] == 'self._key.verify' and c[1]:
                        m = re.match(r'^(.+)\.hashdata\((.+)\)$', c[1][0])
                        if m:
                            pairs.add((m.group(1), m.group(2)))
            rep.check((a[0], a[2]) in pairs, rid, 'PGPKey.verify', 'record of %s' % (a[:3],),
                      'the record must name the signature and subject that were examined', where=w, expected=sorted(pairs), found=a[:3])


# ------------------------------------------------------------------------------------------------ sources partition
def check_sources_partition(rep, prog, rid):
    """PGPKey.verify(<PGPKey>): the owner collections whose signatures are gathered (user ids, user attributes, subkeys) must not
    overlap - an owner reachable through two of them has every certification examined and listed twice.  Each source
    `subject.X` is resolved on PGPKey to (base collection, filter); two sources overlap when they share the base and their
    filters are not provably disjoint (type tests of the element's packet against unrelated classes)."""
    fi, outs, _ = run_verify(prog, F=False, V=False, subject_type='PGPKey')
    rep.saw(fn=fi)
    subj = fi.params[1]
    K = prog.cls('pgpy.pgp', 'PGPKey')
    # every loop / comprehension generator of the function that walks an attribute of the subject (located on the AST, so that
    # append loops, extend(<generator>) and nested comprehensions all count); a `for` over a comprehension is that one loop
    def strip(it):
        while isinstance(it, ast.Call) and dotted(it.func) in ('iter', 'list', 'tuple') and len(it.args) == 1:
            it = it.args[0]
        return it

    def is_subject_attr(it):
        d = dotted(it.func.value) if isinstance(it, ast.Call) and isinstance(it.func, ast.Attribute) and not it.args and \
            it.func.attr in ('values', 'keys', 'items') else dotted(it)
        return d is not None and d.startswith(subj + '.') and d.count('.') == 1

    def src_text(it):
        return ast.unparse(it)
    sources = []
    for nd in ast.walk(fi.node):
        gens = []
        if isinstance(nd, ast.For):
            it = strip(nd.iter)
            if isinstance(it, (ast.GeneratorExp, ast.ListComp)) and len(it.generators) == 1 and isinstance(it.elt, ast.Name) and \
                    isinstance(it.generators[0].target, ast.Name) and it.elt.id == it.generators[0].target.id:
                gens.append((it.generators[0].target, strip(it.generators[0].iter), it.generators[0].ifs))
                it.generators[0]._fused = True
            else:
                gens.append((nd.target, it, []))
        elif isinstance(nd, ast.comprehension) and not getattr(nd, '_fused', False):
            gens.append((nd.target, strip(nd.iter), nd.ifs))
        flat = []
        for target, it, ifs in gens:
            flat.append((target, it, ifs))
        for target, it, ifs in flat:
            if not is_subject_attr(it):
                continue
            flt = None
            if ifs:
                c = ifs[0]
                if len(ifs) == 1 and isinstance(target, ast.Name) and isinstance(c, ast.Attribute) and isinstance(c.value, ast.Name) and c.value.id == target.id:
                    flt = '$1.%s' % c.attr
                else:
                    # not a type partition of the element: only a problem when this source shares its base with another one
                    flt = '?' + ' and '.join(ast.unparse(x) for x in ifs)
            sources.append((src_text(it), flt))
    # itertools.chain(a, b, c), iterated directly or through a local, walks each of its arguments
    for nd in ast.walk(fi.node):
        if isinstance(nd, ast.Call) and (dotted(nd.func) or '').split('.')[-1] == 'chain' and not nd.keywords:
            for a in nd.args:
                if is_subject_attr(strip(a)):
                    sources.append((src_text(strip(a)), None))
    # a comprehension fused into its `for` was visited before being marked when ast.walk reached it first: drop such duplicates
    sources = [x for i, x in enumerate(sources) if not (x in sources[:i] and x[1] is not None)]
    if len(sources) < 2:
        raise AnalysisError('PGPKey.verify: fewer than two owner collections are walked for a key subject (%s)' % sources)

    def resolve(coll):
        m = re.match(r'^%s\.([A-Za-z_]\w*)(\.values\(\)|\.keys\(\)|\.items\(\))?$' % re.escape(subj), coll)
        if not m:
            raise AnalysisError('PGPKey.verify walks %s: not an attribute of the key' % coll)
        g = K.find_method(m.group(1))
        if g is None:
            return ('%s.%s' % (g and g.params[0] or 'self', m.group(1)), None)
        rets = set(alpha(render(s.ret)) for s in Interp(prog, Scenario(inline=noinline)).run(g) if s.raised is None and s.ret is not None)
        if len(rets) != 1:
            raise AnalysisError('PGPKey.%s: cannot tell which collection it denotes (%s)' % (m.group(1), sorted(rets)))
        t = _unwrap_iter(rets.pop())
        e = re.match(r'^EACH\(\$1 in ([^;]*?)(?: if ([^;]*))?;\$1\)$', t)
        if e:
            return (e.group(1), e.group(2))
        if re.match(r'^%s(\.[A-Za-z_]\w*)+$' % re.escape(g.params[0]), t):
            return (t, None)
        raise AnalysisError('PGPKey.%s: collection not understood: %s' % (m.group(1), t))

    def filter_class(flt):
        """`$1.P` with PGPUID.P returning isinstance(self._uid, C): the class C."""
        m = re.match(r'^\$1\.([A-Za-z_]\w*)$', flt or '')
        if not m:
            return None
        U = prog.cls('pgpy.pgp', 'PGPUID')
        g = U.find_method(m.group(1))
        if g is None:
            return None
        rets = set(render(s.ret) for s in Interp(prog, Scenario(inline=noinline)).run(g) if s.raised is None and s.ret is not None)
        if len(rets) != 1:
            return None
        c = re.match(r'^isinstance\(%s\.[A-Za-z_]\w*, ([A-Za-z_]\w*)\)$' % re.escape(g.params[0]), rets.pop())
        return c.group(1) if c else None

    def disjoint(f1, f2):
        c1, c2 = filter_class(f1), filter_class(f2)
        if c1 is None or c2 is None or c1 == c2:
            return False
        mod = prog.module('pgpy.pgp')
        a, b = prog.lookup(mod, c1), prog.lookup(mod, c2)
        if not hasattr(a, 'mro') or not hasattr(b, 'mro'):
            return False
        return a not in b.mro() and b not in a.mro()
    res = []
    for c, flt in sources:
        b, f0 = resolve(c)
        if flt is not None and f0 is not None and flt != f0:
            raise AnalysisError('PGPKey.verify: %s is filtered twice (%s, %s)' % (c, f0, flt))
        res.append((c, b, flt if flt is not None else f0))
    for i in range(len(res)):
        for j in range(i + 1, len(res)):
            (c1, b1, f1), (c2, b2, f2) = res[i], res[j]
            overlap = b1 == b2 and not disjoint(f1, f2)
            if overlap and any((f or '').startswith('?') for f in (f1, f2)):
                raise AnalysisError('PGPKey.verify: filter of the loop over %s not understood' % (c1 if (f1 or '').startswith('?') else c2))
            rep.check(not overlap, rid, 'PGPKey.verify', 'sources %s / %s' % (c1, c2),
                      'the collections the (signature, subject) pairs are gathered from must not overlap: an owner reachable through '
                      'both has each of its certifications examined and listed twice', where=fi.where,
                      expected='disjoint owner collections', found='%s = %s%s ; %s = %s%s' % (c1, b1, ' if ' + f1 if f1 else '', c2, b2, ' if ' + f2 if f2 else ''))
