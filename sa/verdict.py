"""E5 - finite flag-predicate analysis and verdict-object rules shared by C01 and C17."""
import ast
import re
import itertools

from .loader import AnalysisError, dotted
from .interp import Interp, Scenario, Sym, Const, render
from .cfg import CFG, calls_in

DISQUALIFYING = ['WrongSig', 'Expired', 'Disabled', 'Invalid', 'NoSelfSignature']
ADVISORY = ['BrokenAsymmetricFunc', 'HashFunctionNotCollisionResistant', 'HashFunctionNotSecondPreimageResistant',
            'AsymmetricKeyLengthIsTooShort', 'InsecureCurve']


def _issues(prog):
    ci = prog.cls('pgpy.constants', 'SecurityIssues')
    mem = ci.enum_members()
    if not mem:
        raise AnalysisError('SecurityIssues has no members')
    return ci, mem


def _fold_mask(node, mem):
    """Fold SecurityIssues.A | SecurityIssues.B | ... to an int mask; None if not of that shape."""
    if isinstance(node, ast.BinOp) and isinstance(node.op, ast.BitOr):
        a, b = _fold_mask(node.left, mem), _fold_mask(node.right, mem)
        return None if a is None or b is None else a | b
    if isinstance(node, ast.Attribute) and isinstance(node.value, ast.Name) and node.value.id in ('SecurityIssues', 'self', 'cls'):
        return mem.get(node.attr)
    if isinstance(node, ast.Attribute) and isinstance(node.value, ast.Attribute) and node.value.attr == 'SecurityIssues':
        return mem.get(node.attr)
    if isinstance(node, ast.Constant) and isinstance(node.value, int):
        return node.value
    if isinstance(node, ast.Call) and dotted(node.func) == 'SecurityIssues' and node.args:
        return _fold_mask(node.args[0], mem)
    return None


def classify_predicate(expr, mem, selfname='self'):
    """Type the predicate in {('monotone', mask), ('nonmonotone', witness), ('constant', v), ('unknown', why)}.

    monotone w.r.t. bit inclusion of `self`: the forms  bool(self & M), self & M, (self & M) != 0, (self & M) > 0,
    M & self, K in self, any(k in self for k in (..)), monotone-or/and of monotone.  `self in {..}`, `self == K`,
    `self is K` are non-monotone whenever the enum has a member outside the set."""
    def is_self(n):
        return isinstance(n, ast.Name) and n.id == selfname

    def masked(n):
        """self & M  -> M"""
        if isinstance(n, ast.BinOp) and isinstance(n.op, ast.BitAnd):
            if is_self(n.left):
                return _fold_mask(n.right, mem)
            if is_self(n.right):
                return _fold_mask(n.left, mem)
        return None

    def rec(n):
        if isinstance(n, ast.Call) and dotted(n.func) == 'bool' and len(n.args) == 1:
            return rec(n.args[0])
        m = masked(n)
        if m is not None:
            return ('monotone', m)
        if isinstance(n, ast.Compare) and len(n.ops) == 1:
            op, l, r = n.ops[0], n.left, n.comparators[0]
            lm = masked(l)
            if lm is not None and isinstance(r, ast.Constant) and r.value == 0 and isinstance(op, (ast.NotEq, ast.Gt)):
                return ('monotone', lm)
            if lm is not None and isinstance(op, (ast.NotEq, ast.IsNot)) and _fold_mask(r, mem) == 0:
                return ('monotone', lm)
            if isinstance(op, ast.In) and is_self(r):
                k = _fold_mask(l, mem)
                if k is not None:
                    # K in self (IntFlag containment): all bits of K set.  Monotone; mask semantic is "all of K".
                    return ('monotone_all', k)
            if isinstance(op, (ast.In,)) and is_self(l) and not isinstance(r, (ast.Set, ast.Tuple, ast.List)):
                mk = _fold_mask(r, mem)
                if mk:
                    # `self in MASK` on an IntFlag is a SUBSET test: adding any bit outside MASK turns it false
                    k = next((v for v in mem.values() if v and (v & mk) == v), None)
                    o = next((v for v in mem.values() if v and not (v & mk)), None)
                    if k is not None and o is not None:
                        return ('nonmonotone', (k, k | o))
            if isinstance(op, (ast.In,)) and is_self(l):
                elts = r.elts if isinstance(r, (ast.Set, ast.Tuple, ast.List)) else None
                if elts is not None:
                    ks = [_fold_mask(e, mem) for e in elts]
                    if all(k is not None for k in ks):
                        others = [v for v in mem.values() if v and v not in ks]
                        for k in ks:
                            for o in others:
                                if k and (k | o) not in ks:
                                    return ('nonmonotone', (k, k | o))
                        return ('unknown', 'membership test on self')
            if isinstance(op, (ast.Eq, ast.Is)) and (is_self(l) or is_self(r)):
                k = _fold_mask(r if is_self(l) else l, mem)
                if k:
                    o = next((v for v in mem.values() if v and not (v & k)), None)
                    if o is not None:
                        return ('nonmonotone', (k, k | o))
            return ('unknown', ast.unparse(n))
        if isinstance(n, ast.BoolOp):
            parts = [rec(v) for v in n.values]
            for p in parts:
                if p[0] in ('nonmonotone', 'unknown'):
                    return p
            if isinstance(n.op, ast.Or) and all(p[0] == 'monotone' for p in parts):
                m = 0
                for p in parts:
                    m |= p[1]
                return ('monotone', m)
            if isinstance(n.op, ast.Or) and all(p[0] in ('monotone', 'monotone_all') for p in parts):
                # K in self with single-bit K is the same as self & K
                m = 0
                for p in parts:
                    if p[0] == 'monotone_all' and bin(p[1]).count('1') != 1:
                        return ('monotone_other', None)
                    m |= p[1]
                return ('monotone', m)
            return ('monotone_other', None)
        if isinstance(n, ast.Call) and dotted(n.func) == 'any' and len(n.args) == 1 and \
                isinstance(n.args[0], (ast.GeneratorExp, ast.ListComp)) and len(n.args[0].generators) == 1:
            g = n.args[0]
            gen = g.generators[0]
            if isinstance(gen.target, ast.Name) and isinstance(g.elt, ast.Compare) and len(g.elt.ops) == 1 and \
                    isinstance(g.elt.ops[0], ast.In) and isinstance(g.elt.left, ast.Name) and g.elt.left.id == gen.target.id \
                    and is_self(g.elt.comparators[0]) and isinstance(gen.iter, (ast.Tuple, ast.List, ast.Set)) and not gen.ifs:
                ks = [_fold_mask(e, mem) for e in gen.iter.elts]
                if all(k is not None and bin(k).count('1') == 1 for k in ks):
                    m = 0
                    for k in ks:
                        m |= k
                    return ('monotone', m)
            return ('unknown', ast.unparse(n))
        if isinstance(n, ast.Constant):
            return ('constant', bool(n.value))
        if isinstance(n, ast.UnaryOp) and isinstance(n.op, ast.Not):
            p = rec(n.operand)
            if p[0] == 'monotone':
                return ('antitone', p[1])
            return ('unknown', ast.unparse(n))
        return ('unknown', ast.unparse(n))
    return rec(expr)


def predicate_of(prog):
    ci, mem = _issues(prog)
    f = ci.methods.get('causes_signature_verify_to_fail')
    if f is None:
        raise AnalysisError('SecurityIssues.causes_signature_verify_to_fail vanished')
    body = [st for st in f.node.body if not (isinstance(st, ast.Expr) and isinstance(st.value, ast.Constant))]
    # substitute simple local assignments  (mask = A | B; return bool(self & mask))
    env = {}
    ret = None
    for st in body:
        if isinstance(st, ast.Assign) and len(st.targets) == 1 and isinstance(st.targets[0], ast.Name):
            env[st.targets[0].id] = st.value
        elif isinstance(st, ast.Return):
            ret = st.value
        else:
            return f, mem, ('unknown', 'statement %s' % type(st).__name__), None
    if ret is None:
        return f, mem, ('unknown', 'no return'), None

    class Sub(ast.NodeTransformer):
        def visit_Name(self, n):
            if n.id in env:
                return self.visit(env[n.id])
            return n
    import copy
    ret2 = Sub().visit(copy.deepcopy(ret))
    p = f.params
    return f, mem, classify_predicate(ret2, mem, p[0] if p else 'self'), ret


def check_monotone(rep, prog, rid):
    f, mem, cls, ret = predicate_of(prog)
    rep.saw(fn=f)
    construct = 'SecurityIssues.causes_signature_verify_to_fail'
    names = {v: k for k, v in mem.items()}
    if cls[0] == 'nonmonotone':
        k, k2 = cls[1]

        def nm(v):
            return '|'.join(n for n, b in mem.items() if b and v & b) or 'OK'
        rep.violation(rid, construct, 'return %s' % ast.unparse(ret),
                      'verdict predicate is not monotone in the issue set: %s fails but %s passes' % (nm(k), nm(k2)),
                      where=f.where, expected='a bit-mask test such as bool(self & MASK)', found=ast.unparse(ret),
                      scenario='witness %s -> %s' % (nm(k), nm(k2)))
        return None
    if cls[0] == 'monotone':
        rep.ok(rid, construct, 'monotone mask test, mask=%#x (%s)' % (cls[1], '|'.join(n for n, b in mem.items() if b and cls[1] & b)))
        return cls[1]
    if cls[0] in ('constant',):
        rep.violation(rid, construct, 'return %s' % ast.unparse(ret), 'verdict predicate is constant %s' % cls[1], where=f.where,
                      found=ast.unparse(ret))
        return None
    if cls[0] == 'antitone':
        rep.violation(rid, construct, 'return %s' % ast.unparse(ret), 'verdict predicate is antitone: adding an issue can only make it pass',
                      where=f.where, found=ast.unparse(ret))
        return None
    raise AnalysisError('verdict predicate has an unrecognised shape: %s' % (cls[1],))


def check_mask_contains(rep, prog, rid, required, forbidden=()):
    f, mem, cls, ret = predicate_of(prog)
    construct = 'SecurityIssues.causes_signature_verify_to_fail'
    if cls[0] != 'monotone':
        if cls[0] == 'nonmonotone':
            # membership form: the listed single flags are what "contains" can mean
            elts = []
            for n in ast.walk(ret):
                if isinstance(n, ast.Set):
                    elts = [_fold_mask(e, mem) for e in n.elts]
            mask = 0
            for e in elts:
                if e:
                    mask |= e
        else:
            return
    else:
        mask = cls[1]
    for name in required:
        if name not in mem:
            raise AnalysisError('SecurityIssues.%s vanished' % name)
        rep.check(bool(mask & mem[name]), rid, construct, 'mask lacks %s' % name,
                  '%s must disqualify a verification' % name, where=f.where, expected='%s in the failing mask' % name,
                  found='mask=%#x' % mask, scenario=name)
    for name in forbidden:
        if name in mem:
            rep.check(not (mask & mem[name]), rid, construct, 'mask contains advisory %s' % name,
                      '%s is advisory only and must not fail a verification on its own' % name, where=f.where,
                      found='mask=%#x' % mask, scenario=name)


def check_fail_closed(rep, prog, rid):
    """SignatureVerification.add_sigsubj: a record added without an explicit verdict must be a failing one."""
    f = prog.method('pgpy.types', 'SignatureVerification', 'add_sigsubj')
    rep.saw(fn=f)
    _, mem, cls, _ = predicate_of(prog)
    sc = Scenario(args={'issues': Const(None)}, inline=lambda fn: False)
    outs = Interp(prog, sc).run(f)
    found = False
    for s in outs:
        for ft, args, kw, line, node in s.calls:
            if ft.endswith('_subjects.append') or ft.endswith('.append'):
                pass
        for ft, args, kw, line, node in s.calls:
            if ft == 'self._sigsubj' or ft.endswith('._sigsubj'):
                found = True
                a0 = args[0] if args else kw.get('issues')
                # the default must be an issue set that the predicate treats as failing
                val = None
                for n in ast.walk(f.node):
                    if isinstance(n, ast.Assign) and isinstance(n.targets[0], ast.Name) and n.targets[0].id == 'issues':
                        val = _fold_mask(n.value, mem)
                if val is None:
                    raise AnalysisError('default verdict of add_sigsubj not a foldable SecurityIssues constant: %s' % a0)
                mask = cls[1] if cls[0] == 'monotone' else None
                if mask is None:
                    # non-monotone predicate is reported by C17.1; here only require a non-OK default
                    rep.check(val != 0, rid, 'SignatureVerification.add_sigsubj', 'default issues = %s' % a0,
                              'a record without an explicit verdict must not default to OK', where=f.where, found=a0)
                else:
                    rep.check(bool(val & mask), rid, 'SignatureVerification.add_sigsubj', 'default issues = %s' % a0,
                              'a record added without an explicit verdict must count as a bad signature (fail closed)',
                              where=f.where, expected='default & failing-mask != 0', found='%s (=%#x), mask=%#x' % (a0, val, mask))
                # the record carries the four caller values in the namedtuple's field order
                ci = prog.cls('pgpy.types', 'SignatureVerification')
                nt = ci.attrs.get('_sigsubj')
                fields = None
                if isinstance(nt, ast.Call) and len(nt.args) == 2:
                    try:
                        fields = ast.literal_eval(nt.args[1])
                    except Exception:
                        fields = None
                if fields is not None:
                    want = {'issues': args[0] if args else None}
                    order = dict(zip(fields, args))
                    rep.check(order.get('by') == 'by' and order.get('signature') == 'signature' and order.get('subject') == 'subject',
                              rid, 'SignatureVerification.add_sigsubj', 'record fields %s' % order,
                              'the record must store by/signature/subject in the fields of the same name', where=f.where,
                              found=order)
    if not found:
        raise AnalysisError('add_sigsubj no longer builds a _sigsubj record')


# ------------------------------------------------------------------------------------------------ partition
def _atom(node):
    """Classify a sub-expression over a record `x`:  'I' issues truthy, 'nI' issues falsy, 'F' failing predicate."""
    t = ast.unparse(node)
    if isinstance(node, ast.Attribute) and node.attr == 'causes_signature_verify_to_fail' and \
            isinstance(node.value, ast.Attribute) and node.value.attr == 'issues':
        return 'F'
    if isinstance(node, ast.Attribute) and node.attr == 'issues':
        return 'I'
    if isinstance(node, ast.Compare) and len(node.ops) == 1 and isinstance(node.left, ast.Attribute) and node.left.attr == 'issues':
        r = node.comparators[0]
        is_ok = (isinstance(r, ast.Attribute) and r.attr == 'OK') or (isinstance(r, ast.Constant) and r.value == 0)
        if is_ok and isinstance(node.ops[0], (ast.Is, ast.Eq)):
            return 'nI'
        if is_ok and isinstance(node.ops[0], (ast.IsNot, ast.NotEq)):
            return 'I'
    return None


def eval_skeleton(node, assign):
    a = _atom(node)
    if a == 'I':
        return assign['I']
    if a == 'nI':
        return not assign['I']
    if a == 'F':
        return assign['F']
    if isinstance(node, ast.BoolOp):
        vals = [eval_skeleton(v, assign) for v in node.values]
        if any(v is None for v in vals):
            return None
        return all(vals) if isinstance(node.op, ast.And) else any(vals)
    if isinstance(node, ast.UnaryOp) and isinstance(node.op, ast.Not):
        v = eval_skeleton(node.operand, assign)
        return None if v is None else (not v)
    if isinstance(node, ast.Call) and dotted(node.func) == 'bool' and len(node.args) == 1:
        return eval_skeleton(node.args[0], assign)
    return None


def _filter_cond(fn_node):
    """The per-record condition of a generator-based selector: the `if` of the (single) generator expression, or the
    element of all(...)."""
    for n in ast.walk(fn_node):
        if isinstance(n, (ast.GeneratorExp, ast.ListComp)):
            g = n.generators[0]
            src = ast.unparse(g.iter)
            if '_subjects' not in src:
                continue
            if g.ifs:
                cond = g.ifs[0] if len(g.ifs) == 1 else ast.BoolOp(op=ast.And(), values=list(g.ifs))
                return 'filter', cond
            return 'element', n.elt
    return None, None


ROWS = [{'I': False, 'F': False}, {'I': True, 'F': False}, {'I': True, 'F': True}]


def check_partition(rep, prog, rid):
    ci = prog.cls('pgpy.types', 'SignatureVerification')
    tables = {}
    for name in ('good_signatures', 'bad_signatures', '__bool__'):
        f = ci.methods.get(name)
        if f is None:
            raise AnalysisError('SignatureVerification.%s vanished' % name)
        rep.saw(fn=f)
        kind, cond = _filter_cond(f.node)
        if cond is None:
            raise AnalysisError('SignatureVerification.%s: no per-record condition over _subjects found' % name)
        tbl = [eval_skeleton(cond, r) for r in ROWS]
        if any(v is None for v in tbl):
            raise AnalysisError('SignatureVerification.%s: condition %s has an unrecognised atom' % (name, ast.unparse(cond)))
        tables[name] = (tbl, ast.unparse(cond), f)
        if name == '__bool__':
            uses_all = any(isinstance(n, ast.Call) and dotted(n.func) == 'all' for n in ast.walk(f.node))
            rep.check(uses_all, rid, 'SignatureVerification.__bool__', 'aggregation over records',
                      'truthiness must require every record to be good (all(...))', where=f.where)
    good, bad, bl = tables['good_signatures'], tables['bad_signatures'], tables['__bool__']
    rowname = ['issues=OK', 'advisory issues only', 'disqualifying issues']
    for i, r in enumerate(ROWS):
        rep.check(good[0][i] == (not bad[0][i]), rid, 'SignatureVerification.good_signatures/bad_signatures',
                  'row %s: good=%s bad=%s' % (rowname[i], good[0][i], bad[0][i]),
                  'every record must be listed exactly once, as good or as bad', where=good[2].where,
                  expected='good == not bad', found='good: %s ; bad: %s' % (good[1], bad[1]), scenario=rowname[i])
        rep.check(bl[0][i] == good[0][i], rid, 'SignatureVerification.__bool__',
                  'row %s: bool-element=%s good=%s' % (rowname[i], bl[0][i], good[0][i]),
                  'the result is truthy exactly when no record is bad', where=bl[2].where,
                  expected='per-record condition of __bool__ == good', found=bl[1], scenario=rowname[i])
    # the disqualifying row must be bad
    rep.check(bad[0][2] is True and bad[0][0] is False, rid, 'SignatureVerification.bad_signatures', 'rows %s' % bad[0],
              'a record with disqualifying issues is bad; a record with no issues is not', where=bad[2].where, found=bad[1])
    # __and__ concatenates
    f = ci.methods.get('__and__')
    if f is None:
        raise AnalysisError('SignatureVerification.__and__ vanished')
    outs = Interp(prog, Scenario(args={'other': Sym('other', types={'SignatureVerification'}, nonnull=True)},
                                 inline=lambda fn: False)).run(f)
    ok = False
    for s in outs:
        v = s.env.get('self._subjects')
        if v is not None and render(v).replace(' ', '') in ('(self._subjects+other._subjects)',):
            ok = True
    rep.check(ok, rid, 'SignatureVerification.__and__', 'self._subjects += other._subjects',
              'combining two results must keep the records of both', where=f.where,
              expected='self._subjects = self._subjects + other._subjects')


# ------------------------------------------------------------------------------------------------ one record
def check_one_record(rep, prog, rid):
    fi = prog.method('pgpy.pgp', 'PGPKey', 'verify')
    g = CFG(fi.node)
    loops = [n for n in g.nodes if n.kind == 'loop' and isinstance(n.ast, ast.For) and 'sspairs' in ast.unparse(n.ast.iter)]
    if len(loops) != 1:
        raise AnalysisError('PGPKey.verify: expected one loop over sspairs, found %d' % len(loops))
    head = loops[0]

    def records(node):
        if node.ast is None or node.kind not in ('stmt',):
            return 0
        c = 0
        for call in calls_in(node.ast):
            if isinstance(call.func, ast.Attribute) and call.func.attr == 'add_sigsubj':
                c += 1
        if isinstance(node.ast, ast.AugAssign) and isinstance(node.ast.op, ast.BitAnd):
            if any(isinstance(call.func, ast.Attribute) and call.func.attr == 'verify' for call in calls_in(node.ast.value)):
                c += 1
        return c
    body_start = [m for m, lab in g.succ[head.id] if lab == 'T']
    paths = []
    for b in body_start:
        paths.extend(g.paths(b, {head.id, g.exit.id, g.raise_exit.id}, limit=5000))
    rep.analysed['paths'] += len(paths)
    if not paths:
        raise AnalysisError('PGPKey.verify: no path through the verification loop body')
    bad = 0
    for p in paths:
        end = p[-1]
        n = sum(records(g.nodes[i]) for i in p)
        if end == g.raise_exit.id:
            continue
        if n != 1:
            bad += 1
            lines = [g.nodes[i].lineno for i in p if g.nodes[i].ast is not None]
            rep.violation(rid, 'PGPKey.verify', 'loop path with %d records' % n,
                          'an examined signature is recorded %d times on a path through the loop body (lines %s)' % (n, lines),
                          where=fi.where, expected='exactly one add_sigsubj / delegated verify per examined signature', found=n)
    if not bad:
        rep.ok(rid, 'PGPKey.verify', '%d paths through the loop body, each records exactly once or raises' % len(paths))
    # the result object returned is the one the records were added to
    rets = [n for n in g.nodes if n.kind == 'stmt' and isinstance(n.ast, ast.Return)]
    rep.check(any(isinstance(r.ast.value, ast.Name) and r.ast.value.id == 'sigv' for r in rets), rid, 'PGPKey.verify',
              'return value', 'verify must return the object the records were added to', where=fi.where)


def or_operands(text):
    """Split a rendered (a | b) | c text into its top-level operands."""
    t = text.strip()
    while t.startswith('(') and t.endswith(')') and _balanced(t[1:-1]):
        t = t[1:-1].strip()
    parts, depth, cur = [], 0, ''
    for ch in t:
        if ch in '([{':
            depth += 1
        elif ch in ')]}':
            depth -= 1
        if ch == '|' and depth == 0:
            parts.append(cur.strip())
            cur = ''
        else:
            cur += ch
    parts.append(cur.strip())
    if len(parts) == 1:
        return [parts[0]]
    out = []
    for p in parts:
        out.extend(or_operands(p))
    return out


def _balanced(s):
    d = 0
    for ch in s:
        if ch in '([{':
            d += 1
        elif ch in ')]}':
            d -= 1
            if d < 0:
                return False
    return d == 0


def check_crypto_arm_verdict(rep, prog, rid):
    """On the arm that runs the cryptographic check: a falsy result is always recorded with WrongSig in the issue set,
    a truthy one never with a disqualifying member."""
    fi = prog.method('pgpy.pgp', 'PGPKey', 'verify')
    _, mem = _issues(prog)
    for truthy in (False, True):
        def oracle(t, _v=truthy):
            if t.startswith('self._key.verify('):
                return _v
            if 'causes_signature_verify_to_fail' in t:
                return False
            return None
        sc = Scenario(args={'subject': Sym('subject', types={'PGPUID'}, nonnull=True), 'signature': Const(None)},
                      oracle=oracle, inline=lambda f: False, axioms={'(len(sspairs) == 0)': False, 'sspairs': True})
        outs = Interp(prog, sc).run(fi)
        rep.analysed['paths'] += len(outs)
        recs = []
        for s in outs:
            for c in s.calls:
                if c[0].endswith('.add_sigsubj') and c not in recs:
                    recs.append(c)
        if not recs:
            rep.violation(rid, 'PGPKey.verify', 'no record after the crypto check', 'the cryptographic result is never recorded', where=fi.where)
            continue
        for ft, args, kw, line, node in recs:
            v = args[3] if len(args) > 3 else kw.get('issues')
            ops = [o.replace('SecurityIssues.', '') for o in or_operands(v or '')]
            w = '%s:%d' % (fi.module.relpath, line)
            if not truthy:
                rep.check(v is not None and 'WrongSig' in ops, rid, 'PGPKey.verify', 'library rejects -> recorded %s' % v,
                          'a cryptographically wrong signature must always be recorded with WrongSig (whatever else is known about the key)',
                          where=w, expected='SecurityIssues.WrongSig (possibly | more)', found=v, scenario='library verify rejects')
            else:
                bad = [o for o in ops if o in DISQUALIFYING]
                rep.check(v is not None and not bad, rid, 'PGPKey.verify', 'library accepts -> recorded %s' % v,
                          'an accepted signature on a non-disqualified key must not be recorded as failing', where=w, found=v,
                          scenario='library verify accepts')
            # the pair named in the record is the pair whose hashdata was handed to the key material on this path
            pairs = set()
            for s in outs:
                if not any(c is x or c == x for x in s.calls for c in [(ft, args, kw, line, node)]):
                    continue
                for c in s.calls:
                    if c[0] == 'self._key.verify' and c[1]:
                        m = re.match(r'^(.+)\.hashdata\((.+)\)$', c[1][0])
                        if m:
                            pairs.add((m.group(1), m.group(2)))
            rep.check(len(args) > 2 and (args[0], args[2]) in pairs, rid, 'PGPKey.verify', 'record of %s' % (args[:3],),
                      'the record must name the signature and subject that were examined', where=w, expected=sorted(pairs), found=args[:3])
