"""Sensitivity run (thorough tier): seeded mutants must be reported, behaviour-preserving twins must stay silent.

Mutants and twins are text edits {file, old, new} applied IN MEMORY to the current tree (loader overlay) - no scratch
copies on disk, nothing is executed.  An edit whose `old` text no longer occurs exactly once is skipped and counted.
The sensitivity run never changes the property verdict: a missed mutant or a noisy twin is an ANALYSIS-ERROR (exit 2).
"""
import concurrent.futures
import importlib
import io
import json
import os
import contextlib

from .loader import Program, AnalysisError
from .report import Report, VERIF


def _one(args):
    prop, root, case = args
    try:
        overlay = {}
        for ed in case['edits']:
            path = os.path.join(root, ed['file'])
            src = overlay.get(ed['file'])
            if src is None:
                with open(path, encoding='utf-8') as fh:
                    src = fh.read()
            if src.count(ed['old']) != 1:
                return case['id'], 'skipped', 'edit no longer applies to %s (%d matches)' % (ed['file'], src.count(ed['old']))
            overlay[ed['file']] = src.replace(ed['old'], ed['new'])
        mod = importlib.import_module('rules.%s' % prop)
        rep = Report(prop, 'quick', 0, root)
        buf = io.StringIO()
        err = None
        with contextlib.redirect_stdout(buf), contextlib.redirect_stderr(buf):
            try:
                prog = Program(root, overlay=overlay)
                mod.run(rep, prog, 'quick')
            except AnalysisError as ex:
                err = 'analysis-error: %s' % ex
            except Exception as ex:
                err = 'internal: %s: %s' % (type(ex).__name__, ex)
        rules = sorted(set(f.rule for f in rep.findings))
        known = set()
        kf = os.path.join(VERIF, 'known_findings.json')
        if os.path.exists(kf):
            for k in json.load(open(kf)).get('known', []):
                if k.get('property') == prop:
                    known.add((k.get('rule'), k.get('construct'), k.get('statement')))
        new = [f for f in rep.findings if (f.rule, f.construct, f.stmt) not in known]
        if case.get('expect', 'violation') == 'violation':
            if new:
                want = case.get('rule')
                if want and not any(f.rule.startswith(want) for f in new):
                    return case['id'], 'killed-other-rule', 'reported by %s, expected %s' % (rules, want)
                return case['id'], 'killed', '%s' % sorted(set(f.rule for f in new))
            if err or rep.errors:
                return case['id'], 'unseen', err or str(rep.errors[:1])
            return case['id'], 'missed', 'no finding'
        else:
            if new:
                return case['id'], 'false-alarm', '%s: %s' % (new[0].rule, new[0].message)
            if err or rep.errors:
                return case['id'], 'twin-unseen', err or str(rep.errors[:1])
            return case['id'], 'silent', ''
    except Exception as ex:   # pragma: no cover
        return case.get('id'), 'harness-error', '%s: %s' % (type(ex).__name__, ex)


def load_corpus(prop):
    path = os.path.join(VERIF, 'selftest', '%s.json' % prop)
    if not os.path.exists(path):
        return []
    with open(path) as fh:
        return json.load(fh)


def run(rep, prop, root, jobs=16):
    corpus = load_corpus(prop)
    if not corpus:
        rep.selftest = {'cases': 0}
        return
    args = [(prop, root, c) for c in corpus]
    results = []
    with concurrent.futures.ProcessPoolExecutor(max_workers=min(jobs, len(args))) as ex:
        for r in ex.map(_one, args):
            results.append(r)
    summary = {}
    for cid, st, msg in results:
        summary[st] = summary.get(st, 0) + 1
    rep.selftest = {'cases': len(corpus), 'summary': summary,
                    'results': [{'id': c, 'status': s, 'detail': m} for c, s, m in results]}
    for cid, st, msg in results:
        if st in ('missed', 'false-alarm', 'harness-error'):
            rep.error('selftest', 'sensitivity case %s: %s (%s)' % (cid, st, msg))
    print('selftest %s: %s' % (prop, ' '.join('%s=%d' % kv for kv in sorted(summary.items()))))
