"""Paths of one iteration of a summarised loop, and conditions of paths as truth tables.

`observe(prog, fn, **scenario)` interprets fn with a loop observer installed (Scenario.loop_observer, called by the interpreter's
loop summariser before the paths of one iteration are merged) and returns the final states plus one LoopRec per summarised loop.
Rules use it to decide, without reference to statement shapes or names, which elements a loop skips (the disjunction of the
decisions of the paths that do nothing), what every other path does (its events since loop entry) and under which condition.
"""
import re

from .interp import Interp, Scenario, render
from .condtab import split_filter, from_fact, atoms, table, atom_name


class LoopRec(object):
    """One summarised loop as the interpreter saw it: collection (its fused filter split off), canonical bound variable(s),
    the state at loop entry and per path (status, decisions, events, yields) since loop entry."""
    def __init__(self, frame, node, colltext, vartext, before, body):
        self.node, self.depth = node, frame.depth
        self.text = colltext
        self.coll, self.conds = split_filter(colltext)
        self.var = vartext
        self.before = before
        self.paths = []
        nf, ne, ny = len(before.facts), len(before.events), len(before.yields)
        for st, status in body:
            self.paths.append((status, list(st.facts[nf:]), list(st.events[ne:]), [render(y) for y in st.yields[ny:]]))


def observe(prog, fn, inline=None, **kw):
    """Interpret fn; returns (final states, [LoopRec of every summarised loop of fn itself])."""
    recs = []
    sc = Scenario(inline=inline if inline is not None else (lambda f: False), **kw)
    sc.loop_observer = lambda frame, node, coll, var, before, body: recs.append(LoopRec(frame, node, coll, var, before, body)) if frame.depth == 0 else None
    outs = Interp(prog, sc).run(fn)
    return outs, recs


def path_cond(facts):
    """Skeleton of the conjunction of a path's decisions."""
    out = []
    for f in facts:
        if len(f) < 3 or f[2] is None:
            continue            # exception edges / loop markers are not conditions of the element
        sk = from_fact(f[0], f[2])
        out.append(sk if f[1] else ('not', sk))
    return ('and', out)


def any_of(conds):
    return ('or', list(conds))


def atom_value(facts, atom):
    """Value of an atom on a path whose decisions fix it (None when the path does not depend on it / not uniquely)."""
    sk = path_cond(facts)
    atom = atom_name(atom) or atom
    if atom not in atoms(sk):
        return None
    tab, names = table(sk)
    vals = {dict(zip(names, v))[atom] for v, keep in tab.items() if keep}
    return vals.pop() if len(vals) == 1 else None


def fact_texts(facts):
    return [f[0] if f[1] else 'not ' + f[0] for f in facts]


def fresh_objects(events):
    """{local name: 'Cls()'} for objects constructed without arguments and first bound to that local on the path: the interpreter
    renders such an object by the local's name; rules respell it as the constructor call so that no local name matters."""
    out = {}
    for a, b in zip(events, events[1:]):
        if a[0] == 'call' and re.match(r'^[A-Z]\w*$', a[1]) and not a[2] and not a[3] and b[0] == 'assign' and b[1] == b[2]:
            out[b[1]] = '%s()' % a[1]
    return out


def respell(text, names):
    for n, ctor in names.items():
        text = re.sub(r'(?<![\w.$\'"])%s(?![\w(\'"])' % re.escape(n), ctor, text)
    return text
