"""E0b - canonicaliser: semantics-preserving AST normalisation applied to the loaded program before any rule runs.

Edits that leave behaviour unchanged (extract a private helper / inline one, hoist a literal into a class constant, name a
temporary alias, `not a == b` vs `a != b`, a conditional expression vs an if statement, ...) must not change a verdict.
Instead of teaching every rule every spelling, the program is rewritten once into a normal form:

  A. new constants   class-/module-level NAME = <pure literal expr> whose NAME is not in the reference vocabulary is
                     substituted at its loads (self.NAME, cls.NAME, K.NAME, NAME); compiled regexes become re.<fn>(pattern, ..)
  B. new helpers     calls of functions whose name is not in the reference vocabulary, and of nested closures, are inlined
                     (expression helpers anywhere; statement helpers at statement level; tail calls; `yield from` helpers)
  C. local literals  single-assignment locals bound to a literal are substituted (attribute reads are NOT treated as pure:
                     `h = x.hasher` creates an object; value-level aliasing is the interpreter's business)
  D. spellings       not a == b -> a != b ; x = x op y -> x op= y ; d.get(k, None) -> d.get(k) ; range(0, n) -> range(n) ; filter(lambda x: c, it) -> (x for x in it if c) ;
                     super(K, self) -> super() ; v = a if c else b -> if c: v = a else: v = b ; len(x) == 0 (test) -> not x ;
                     if not c: A else: B -> if c: B else: A ; keyword arguments of resolvable callees -> positional

Every rewrite keeps the line number of the statement it came from.  Nothing here decides a property.
"""
import ast
import copy

from .vocab import FUNCTIONS as VOCAB_FUNCS, NAMES as VOCAB_NAMES, PARAMS as VOCAB_PARAMS

ONCE = '__once'


def _dotted(node):
    if isinstance(node, ast.Name):
        return node.id
    if isinstance(node, ast.Attribute):
        b = _dotted(node.value)
        return None if b is None else b + '.' + node.attr
    return None


# ----------------------------------------------------------------------------------------------- purity / simple exprs
def is_pure_literal(node, depth=0, name_ok=None):
    """Expression whose value is fixed at definition time and has no side effects.  name_ok(id) -> True for plain names that
    denote a fixed object (a class of the program): a dispatch table {Enum.Member: SomeClass} is such a literal."""
    if depth > 6:
        return False
    if isinstance(node, ast.Constant):
        return True
    if isinstance(node, (ast.Tuple, ast.List, ast.Set)):
        return all(is_pure_literal(e, depth + 1, name_ok) for e in node.elts)
    if isinstance(node, ast.Dict):
        return all(k is not None and is_pure_literal(k, depth + 1, name_ok) and is_pure_literal(v, depth + 1, name_ok)
                   for k, v in zip(node.keys, node.values))
    if isinstance(node, ast.Name) and name_ok is not None and depth > 0 and name_ok(node.id):
        return True
    if isinstance(node, ast.UnaryOp):
        return is_pure_literal(node.operand, depth + 1)
    if isinstance(node, ast.BinOp):
        return is_pure_literal(node.left, depth + 1) and is_pure_literal(node.right, depth + 1)
    if isinstance(node, ast.Attribute):
        d = _dotted(node)
        return d is not None and d.split('.')[0][:1].isupper()       # Enum.Member / re.MULTILINE style references
    if isinstance(node, ast.Name):
        return node.id in ('True', 'False', 'None')
    if isinstance(node, ast.Call):
        fn = _dotted(node.func)
        if fn in ('re.compile', 'frozenset', 'tuple', 'bytes', 'bytearray', 'set', 'dict', 'list') and not any(k.arg is None for k in node.keywords):
            if fn == 're.compile':
                return all(is_pure_literal(a, depth + 1) or _dotted(a) in RE_FLAGS for a in node.args) and \
                    all(is_pure_literal(k.value, depth + 1) or _is_flags(k.value) for k in node.keywords)
            return all(is_pure_literal(a, depth + 1) for a in node.args) and not node.keywords
    return False


RE_FLAGS = {'re.MULTILINE', 're.M', 're.DOTALL', 're.S', 're.IGNORECASE', 're.I', 're.VERBOSE', 're.X', 're.ASCII', 're.A'}


def _is_flags(node):
    if _dotted(node) in RE_FLAGS:
        return True
    if isinstance(node, ast.BinOp) and isinstance(node.op, ast.BitOr):
        return _is_flags(node.left) and _is_flags(node.right)
    return isinstance(node, ast.Constant)


def _close_over(expr, known):
    """expr with the bare names of already accepted constants replaced by their values and len(<literal>) folded; None when a name
    stays open (class-body constants may refer to earlier ones: _TRAILER_LEN = len(_HEADER) + _DIGEST_LEN)."""
    if not isinstance(expr, ast.AST) or not known:
        return None

    class R(ast.NodeTransformer):
        def visit_Name(self, node):
            if isinstance(node.ctx, ast.Load) and node.id in known:
                return copy.deepcopy(known[node.id])
            return node

        def visit_Call(self, node):
            self.generic_visit(node)
            if _dotted(node.func) == 'len' and len(node.args) == 1 and not node.keywords and isinstance(node.args[0], ast.Constant) and \
                    isinstance(node.args[0].value, (bytes, str)):
                return ast.copy_location(ast.Constant(value=len(node.args[0].value)), node)
            return node
    out = R().visit(copy.deepcopy(expr))
    if any(isinstance(n, ast.Name) and n.id not in ('True', 'False', 'None') and not n.id[:1].isupper() for n in ast.walk(out)):
        return None
    if any(isinstance(n, ast.Call) and _dotted(n.func) == 'len' for n in ast.walk(out)):
        return None
    return ast.fix_missing_locations(out)


def is_simple(node):
    """Cheap, side-effect free, safe to duplicate: names, constants, attribute chains, constant subscripts."""
    if isinstance(node, (ast.Name, ast.Constant)):
        return True
    if isinstance(node, ast.Attribute):
        return is_simple(node.value)
    if isinstance(node, ast.Subscript):
        return is_simple(node.value) and isinstance(node.slice, ast.Constant)
    if isinstance(node, ast.UnaryOp) and isinstance(node.operand, ast.Constant):
        return True
    if isinstance(node, ast.Call) and _dotted(node.func) == 'type' and len(node.args) == 1 and isinstance(node.args[0], ast.Name) and not node.keywords:
        return True
    return False


def bound_names(fn):
    """Names bound in a function's own scope (params, assignment targets, loop variables, imports, withs, handlers)."""
    out = set()
    a = fn.args
    for x in a.posonlyargs + a.args + a.kwonlyargs:
        out.add(x.arg)
    if a.vararg:
        out.add(a.vararg.arg)
    if a.kwarg:
        out.add(a.kwarg.arg)
    for n in walk_scope(fn):
        if isinstance(n, ast.Name) and isinstance(n.ctx, (ast.Store, ast.Del)):
            out.add(n.id)
        elif isinstance(n, (ast.FunctionDef, ast.AsyncFunctionDef, ast.ClassDef)) and n is not fn:
            out.add(n.name)
        elif isinstance(n, ast.ExceptHandler) and n.name:
            out.add(n.name)
        elif isinstance(n, (ast.Import, ast.ImportFrom)):
            for al in n.names:
                out.add((al.asname or al.name).split('.')[0])
    return out


def walk_scope(fn):
    """ast.walk limited to the function's own scope (nested defs / lambdas / comprehensions' bodies are not entered, but
    the nested def node itself is yielded)."""
    todo = list(ast.iter_child_nodes(fn)) if isinstance(fn, (ast.FunctionDef, ast.AsyncFunctionDef, ast.Lambda)) else [fn]
    while todo:
        n = todo.pop()
        yield n
        if isinstance(n, (ast.FunctionDef, ast.AsyncFunctionDef, ast.ClassDef, ast.Lambda)):
            continue
        todo.extend(ast.iter_child_nodes(n))


def all_names(node):
    return {n.id for n in ast.walk(node) if isinstance(n, ast.Name)}


class Subst(ast.NodeTransformer):
    """Replace loads of given names by expressions; rename stores.  Does not enter nested scopes that rebind the name."""
    def __init__(self, loads=None, renames=None):
        self.loads = loads or {}
        self.renames = renames or {}

    def visit_Name(self, node):
        if isinstance(node.ctx, ast.Load) and node.id in self.loads:
            new = copy.deepcopy(self.loads[node.id])
            return ast.copy_location(new, node) if not hasattr(new, 'lineno') else _relocate(new, node)
        if node.id in self.renames:
            return ast.copy_location(ast.Name(id=self.renames[node.id], ctx=node.ctx), node)
        return node

    def _nested(self, node, bound):
        hide = {k for k in list(self.loads) + list(self.renames) if k in bound}
        if not hide:
            return self.generic_visit(node)
        sub = Subst({k: v for k, v in self.loads.items() if k not in hide}, {k: v for k, v in self.renames.items() if k not in hide})
        return sub.generic_visit(node)

    def visit_FunctionDef(self, node):
        if node.name in self.renames:
            node.name = self.renames[node.name]
        return self._nested(node, bound_names(node))

    def visit_Lambda(self, node):
        a = node.args
        return self._nested(node, {x.arg for x in a.posonlyargs + a.args + a.kwonlyargs})

    def visit_ExceptHandler(self, node):
        if node.name in self.renames:
            node.name = self.renames[node.name]
        return self.generic_visit(node)


def _relocate(new, at):
    for n in ast.walk(new):
        if hasattr(n, 'lineno') or isinstance(n, (ast.expr, ast.stmt)):
            n.lineno = getattr(at, 'lineno', 1)
            n.col_offset = getattr(at, 'col_offset', 0)
            n.end_lineno = getattr(at, 'end_lineno', n.lineno)
            n.end_col_offset = getattr(at, 'end_col_offset', 0)
    return new


def walk_scope_stmt(stmt):
    """The nodes of a statement, not descending into nested function / class definitions or lambdas."""
    todo = [stmt]
    while todo:
        n = todo.pop()
        yield n
        if isinstance(n, (ast.FunctionDef, ast.AsyncFunctionDef, ast.ClassDef, ast.Lambda)) and n is not stmt:
            continue
        todo.extend(ast.iter_child_nodes(n))


def returns_in(fn):
    return [n for n in walk_scope(fn) if isinstance(n, ast.Return)]


def is_generator(fn):
    return any(isinstance(n, (ast.Yield, ast.YieldFrom)) for n in walk_scope(fn))


def body_nodoc(fn):
    b = list(fn.body)
    if b and isinstance(b[0], ast.Expr) and isinstance(b[0].value, ast.Constant) and isinstance(b[0].value.value, str):
        b = b[1:]
    return b


def return_inside_loop(fn):
    def rec(stmts, inloop):
        for s in stmts:
            if isinstance(s, ast.Return) and inloop:
                return True
            if isinstance(s, (ast.FunctionDef, ast.AsyncFunctionDef, ast.ClassDef)):
                continue
            for name in ('body', 'orelse', 'finalbody'):
                sub = getattr(s, name, None)
                if sub and rec(sub, inloop or (isinstance(s, (ast.For, ast.While)) and name == 'body')):
                    return True
            for h in getattr(s, 'handlers', []) or []:
                if rec(h.body, inloop):
                    return True
        return False
    return rec(fn.body, False)


# ----------------------------------------------------------------------------------------------- the canonicaliser
class Canon(object):
    def __init__(self, prog):
        self.prog = prog
        self.counter = 0
        self.stats = {'consts': 0, 'helpers': 0, 'aliases': 0, 'spellings': 0}
        self.inlined = []          # (callee qualname, host qualname)

    # ---------------------------------------------------------------- driver
    def run(self):
        self._collect_consts()
        for m in self.prog.modules.values():
            for fn, cls in self._functions(m):
                for n in ast.walk(fn):          # new helpers and nested closures: guard-clause predicates become one boolean expression
                    if isinstance(n, ast.FunctionDef) and (n is not fn or fn.name not in VOCAB_FUNCS):
                        self._single_return_predicate(n)
                        if n is not fn:         # closures only: a new METHOD returning a generator expression is inlined as that expression
                            self._returned_genexp_to_generator(n)
        for m in self.prog.modules.values():
            for fn, cls in self._functions(m):
                backup = copy.deepcopy(fn.body)
                try:
                    self._canon_function(fn, cls, m)
                except RecursionError:
                    raise
                except Exception as ex:      # an unmodelled construct: leave this one function as written, never lose the program
                    fn.body = backup
                    self.stats.setdefault('failed', []).append('%s.%s: %s: %s' % (m.name, fn.name, type(ex).__name__, ex))
        return self

    def _single_return_predicate(self, fdef):
        """def p(x): if A: return False; if B: return True; return E   ->   def p(x): return (not A) and (B or E)
        for boolean-valued tests A, B (comparisons, isinstance, not / and / or of those): the same value on every input, and a
        one-expression helper that the inliner and the interpreter can see through."""
        body = body_nodoc(fdef)
        if len(body) < 2 or not isinstance(body[-1], ast.Return) or body[-1].value is None:
            return

        def boolean(t):
            if isinstance(t, ast.BoolOp):
                return all(boolean(v) for v in t.values)
            if isinstance(t, ast.UnaryOp) and isinstance(t.op, ast.Not):
                return True
            if isinstance(t, ast.Compare):
                return True
            return isinstance(t, ast.Call) and _dotted(t.func) in ('isinstance', 'issubclass', 'callable', 'hasattr', 'bool')
        arms = []
        for st in body[:-1]:
            if not (isinstance(st, ast.If) and not st.orelse and len(st.body) == 1 and isinstance(st.body[0], ast.Return) and
                    isinstance(st.body[0].value, ast.Constant) and isinstance(st.body[0].value.value, bool) and boolean(st.test)):
                return
            arms.append((st.test, st.body[0].value.value))
        expr = body[-1].value
        for test, const in reversed(arms):
            if const:
                expr = ast.BoolOp(op=ast.Or(), values=[test, expr])
            else:
                expr = ast.BoolOp(op=ast.And(), values=[ast.UnaryOp(op=ast.Not(), operand=test), expr])
        new = ast.Return(value=expr)
        ast.copy_location(new, body[-1])
        ast.fix_missing_locations(new)
        fdef.body = fdef.body[:len(fdef.body) - len(body)] + [new]
        self.stats['spellings'] += 1

    def _returned_genexp_to_generator(self, fdef):
        """def g(a): PRE; return (e for x in it if c ...)   ->   def g(a): PRE; for x in it: if c: yield e
        for a new helper / nested closure whose PRE is plain assignments and whose only return is that last statement: the
        iterator handed back produces the same elements either way (the two differ only in WHEN the pure prologue runs), and the
        generator is the form the loop fuser and the interpreter summarise."""
        body = body_nodoc(fdef)
        if not body or not isinstance(body[-1], ast.Return) or not isinstance(body[-1].value, ast.GeneratorExp):
            return
        if fdef.decorator_list or len(returns_in(fdef)) != 1 or is_generator(fdef):
            return
        if not all(isinstance(st, (ast.Assign, ast.AnnAssign, ast.Pass)) for st in body[:-1]):
            return
        ge = body[-1].value
        if any(g.is_async for g in ge.generators) or any(isinstance(n, (ast.Yield, ast.YieldFrom, ast.Await, ast.NamedExpr)) for n in ast.walk(ge)):
            return
        # names bound by the comprehension live in its own scope: they must not collide with anything the function binds or reads
        targets = set()
        for g in ge.generators:
            targets |= {n.id for n in ast.walk(g.target) if isinstance(n, ast.Name)}
        outside = set(a.arg for a in fdef.args.args + fdef.args.kwonlyargs + fdef.args.posonlyargs)
        for st in body[:-1]:
            outside |= all_names(st)
        if fdef.args.vararg:
            outside.add(fdef.args.vararg.arg)
        if fdef.args.kwarg:
            outside.add(fdef.args.kwarg.arg)
        if targets & (outside | all_names(ge.generators[0].iter)):
            return
        ret = body[-1]
        inner = [ast.Expr(value=ast.Yield(value=ge.elt))]
        for g in reversed(ge.generators):
            for c in reversed(g.ifs):
                inner = [ast.If(test=c, body=inner, orelse=[])]
            inner = [ast.For(target=g.target, iter=g.iter, body=inner, orelse=[])]
        new = inner[0]
        _relocate(new, ret)
        ast.fix_missing_locations(new)
        fdef.body = fdef.body[:len(fdef.body) - 1] + [new]
        self.stats['spellings'] += 1

    def _functions(self, m):
        for st in m.tree.body:
            if isinstance(st, (ast.FunctionDef, ast.AsyncFunctionDef)):
                yield st, None
        for c in m.classes.values():
            for st in c.node.body:
                if isinstance(st, (ast.FunctionDef, ast.AsyncFunctionDef)):
                    yield st, c

    def _canon_function(self, fn, cls, m, outer_first=None):
        self.outer_first = outer_first
        self._new_default_params(fn)
        self._match_to_if(fn)
        self._subst_consts(fn, cls, m)
        self._stmt_comprehensions(fn)
        self._devirtualise(fn, cls, m)
        self._hoist_ifexp(fn)
        for _ in range(3):
            if not self._inline_context_helpers(fn, cls, m):
                break
        for _ in range(4):
            if not self._fuse_generator_loops(fn, cls, m):
                break
        for _ in range(5):
            if not self._inline_round(fn, cls, m):
                break
            self._devirtualise(fn, cls, m)          # an inlined body brings its own calls of overridden new helpers
            self._hoist_ifexp(fn)
            self._subst_consts(fn, cls, m)      # an inlined body brings its own references to new constants
        for _ in range(3):
            if not self._local_aliases(fn):
                break
        self._continue_guard(fn)
        Spell(self, fn, cls, m).visit(fn)
        self._swap_negated_if(fn)
        ast.fix_missing_locations(fn)
        mine = self._first(fn, cls)
        for n in list(walk_scope(fn)):
            if isinstance(n, (ast.FunctionDef, ast.AsyncFunctionDef)) and n is not fn:
                self._canon_function(n, cls, m, outer_first=mine)

    # ---------------------------------------------------------------- with self.new_context_helper(..) as v: BODY
    def _inline_context_helpers(self, fn, cls, m):
        """`with self.H(a) as v: BODY` where H is a NEW @contextmanager method (name not in the reference vocabulary, defined once)
        whose single `yield e` ends its function (nothing runs after it except enclosing with-exits / finally blocks) becomes the
        helper's body with the yield replaced by `v = e; BODY`: what runs before the yield runs before BODY, the context
        managers / finally blocks around the yield still enclose BODY.  Line numbers: the with statement's."""
        if cls is None:
            return False
        first = self._first(fn, cls)
        if first is None:
            return False
        changed = False

        def helper_of(call):
            f = call.func
            if not (isinstance(f, ast.Attribute) and isinstance(f.value, ast.Name) and f.value.id == first) or f.attr in VOCAB_FUNCS:
                return None
            fi = cls.find_method(f.attr)
            if fi is None or sum(1 for c in self.prog.all_classes() if f.attr in c.methods) != 1:
                return None
            if [_dotted(d) for d in fi.node.decorator_list] not in (['contextlib.contextmanager'], ['contextmanager']):
                return None
            ys = [n for n in walk_scope(fi.node) if isinstance(n, (ast.Yield, ast.YieldFrom))]
            if len(ys) != 1 or not isinstance(ys[0], ast.Yield) or returns_in(fi.node):
                return None
            return fi.node

        def yield_tail(stmts):
            """path of blocks to the statement `yield e` when it is the LAST statement of every block on the way (through with /
            try-finally bodies only)"""
            if not stmts:
                return None
            last = stmts[-1]
            if isinstance(last, ast.Expr) and isinstance(last.value, ast.Yield):
                return [(stmts, len(stmts) - 1)]
            if isinstance(last, ast.With):
                sub = yield_tail(last.body)
                return None if sub is None else [(stmts, len(stmts) - 1)] + sub
            if isinstance(last, ast.Try) and not last.handlers and not last.orelse:
                sub = yield_tail(last.body)
                return None if sub is None else [(stmts, len(stmts) - 1)] + sub
            return None

        def rec(stmts):
            nonlocal changed
            i = 0
            while i < len(stmts):
                st = stmts[i]
                if isinstance(st, ast.With) and len(st.items) == 1 and isinstance(st.items[0].context_expr, ast.Call):
                    call = st.items[0].context_expr
                    callee = helper_of(call)
                    if callee is not None and not any(isinstance(n, (ast.Yield, ast.YieldFrom)) for n in ast.walk(st)):
                        b = self._bind(callee, call.func.value, 'method', call, bound_names(fn), True)
                        body = [copy.deepcopy(x) for x in body_nodoc(callee)]
                        if b is not None and yield_tail(body) is not None and \
                                not any(isinstance(n, (ast.Yield, ast.YieldFrom)) for x in body[:-1] for n in ast.walk(x)):
                            pre, sub = b
                            body = [sub.visit(x) for x in body]
                            path = yield_tail(body)
                            blk, k = path[-1]
                            y = blk[k].value.value
                            repl = []
                            if st.items[0].optional_vars is not None:
                                repl.append(ast.Assign(targets=[copy.deepcopy(st.items[0].optional_vars)],
                                                       value=y if y is not None else ast.Constant(value=None), lineno=st.lineno))
                            elif y is not None:
                                repl.append(ast.Expr(value=y, lineno=st.lineno))
                            blk[k:k + 1] = repl + st.body
                            new = pre + body
                            for x in new:
                                _relocate(x, st)
                            stmts[i:i + 1] = new
                            self.stats['helpers'] += 1
                            self.inlined.append((callee.name, fn.name))
                            changed = True
                            continue
                for name in ('body', 'orelse', 'finalbody'):
                    sub_ = getattr(st, name, None)
                    if isinstance(sub_, list) and sub_ and isinstance(sub_[0], ast.stmt) and not isinstance(st, (ast.FunctionDef, ast.AsyncFunctionDef, ast.ClassDef)):
                        rec(sub_)
                for h in getattr(st, 'handlers', []) or []:
                    rec(h.body)
                i += 1
        rec(fn.body)
        if changed:
            ast.fix_missing_locations(fn)
        return changed

    # ---------------------------------------------------------------- for x in obj.new_generator(..): BODY
    def _fuse_generator_loops(self, fn, cls, m):
        """`for x in R.G(args): BODY` where G is a NEW generator method (name not in the reference vocabulary) made of plain
        statements, loops, ifs and statement-level yields becomes G's body with every `yield e` replaced by `x = e; BODY` and every
        `yield from it` by `for x in it: BODY` - the loop the generator drives, written out.  BODY must not break / continue the
        fused loop; the generator must not return early.  G is the receiver's own method (no related class redefines it) or, for
        another simple receiver, the only definition in the program that accepts the call's arguments."""
        first = self._first(fn, cls) if cls is not None else None
        changed = False

        def plain(stmts):
            for st in stmts:
                if isinstance(st, ast.Expr):
                    if isinstance(st.value, (ast.Yield, ast.YieldFrom)):
                        if any(isinstance(n, (ast.Yield, ast.YieldFrom)) for n in ast.walk(st.value.value) if st.value.value is not None):
                            return False
                        continue
                    if any(isinstance(n, (ast.Yield, ast.YieldFrom)) for n in ast.walk(st)):
                        return False
                elif isinstance(st, ast.For) and not st.orelse:
                    if any(isinstance(n, (ast.Yield, ast.YieldFrom)) for n in ast.walk(st.iter)) or not plain(st.body):
                        return False
                elif isinstance(st, ast.If):
                    if any(isinstance(n, (ast.Yield, ast.YieldFrom)) for n in ast.walk(st.test)) or not plain(st.body) or not plain(st.orelse):
                        return False
                elif isinstance(st, (ast.Assign, ast.AugAssign, ast.Pass)):
                    if any(isinstance(n, (ast.Yield, ast.YieldFrom)) for n in ast.walk(st)):
                        return False
                else:
                    return False
            return True

        def accepts(fdef, call, method):
            a = fdef.args
            if a.vararg or a.kwarg or a.posonlyargs:
                return False
            params = [x.arg for x in a.args][1 if method else 0:]
            if len(call.args) > len(params):
                return False
            names = set(params[len(call.args):]) | {x.arg for x in a.kwonlyargs}
            return all(k.arg in names for k in call.keywords)

        def resolve(call):
            f = call.func
            if not isinstance(f, ast.Attribute) or f.attr in VOCAB_FUNCS or (f.attr.startswith('__') and f.attr.endswith('__')):
                return None
            if any(isinstance(x, ast.Starred) for x in call.args) or any(k.arg is None for k in call.keywords) or not is_simple(f.value):
                return None
            defs = [(c, c.methods[f.attr]) for c in self.prog.all_classes() if f.attr in c.methods]
            if any(f.attr in mm.functions for mm in self.prog.modules.values()):
                return None
            if isinstance(f.value, ast.Name) and first is not None and f.value.id == first:
                own = cls.find_method(f.attr)
                if own is None:
                    return None
                related = [c for c, d in defs if c is not own.cls and (cls in c.mro() or c in cls.mro())]
                cands = [] if related else [own]
            else:
                cands = [d for c, d in defs if accepts(d.node, call, True)]
            cands = [d for d in cands if not d.node.decorator_list and is_generator(d.node) and accepts(d.node, call, True)]
            return cands[0].node if len(cands) == 1 else None

        def leaves_loop(stmts):
            for st in stmts:
                if isinstance(st, (ast.Break, ast.Continue)):
                    return True
                if isinstance(st, (ast.For, ast.While, ast.FunctionDef, ast.AsyncFunctionDef, ast.ClassDef)):
                    continue
                for name in ('body', 'orelse', 'finalbody'):
                    if leaves_loop(getattr(st, name, None) or []):
                        return True
                for h in getattr(st, 'handlers', []) or []:
                    if leaves_loop(h.body):
                        return True
            return False

        def weave(stmts, target, body):
            out = []
            for st in stmts:
                if isinstance(st, ast.Expr) and isinstance(st.value, ast.Yield):
                    v = st.value.value if st.value.value is not None else ast.Constant(value=None)
                    out.append(ast.Assign(targets=[copy.deepcopy(target)], value=v, lineno=st.lineno))
                    out.extend(copy.deepcopy(body))
                elif isinstance(st, ast.Expr) and isinstance(st.value, ast.YieldFrom):
                    out.append(ast.For(target=copy.deepcopy(target), iter=st.value.value, body=copy.deepcopy(body), orelse=[], lineno=st.lineno))
                elif isinstance(st, ast.For):
                    st.body = weave(st.body, target, body)
                    out.append(st)
                elif isinstance(st, ast.If):
                    st.body = weave(st.body, target, body)
                    st.orelse = weave(st.orelse, target, body) if st.orelse else []
                    out.append(st)
                else:
                    out.append(st)
            return out or [ast.Pass()]

        def rec(stmts):
            nonlocal changed
            i = 0
            while i < len(stmts):
                st = stmts[i]
                if isinstance(st, ast.For) and not st.orelse and isinstance(st.iter, ast.Call) and not leaves_loop(st.body):
                    callee = resolve(st.iter)
                    if callee is not None and callee is not fn and not returns_in(callee) and plain(body_nodoc(callee)):
                        b = self._bind(callee, st.iter.func.value, 'method', st.iter, bound_names(fn), True)
                        if b is not None:
                            pre, sub = b
                            body = [sub.visit(copy.deepcopy(x)) for x in body_nodoc(callee)]
                            new = pre + weave(body, st.target, st.body)
                            for x in new:
                                _relocate(x, st)
                            stmts[i:i + 1] = new
                            self.stats['helpers'] += 1
                            self.inlined.append((callee.name, fn.name))
                            changed = True
                            continue
                for name in ('body', 'orelse', 'finalbody'):
                    sub_ = getattr(st, name, None)
                    if isinstance(sub_, list) and sub_ and isinstance(sub_[0], ast.stmt) and not isinstance(st, (ast.FunctionDef, ast.AsyncFunctionDef, ast.ClassDef)):
                        rec(sub_)
                for h in getattr(st, 'handlers', []) or []:
                    rec(h.body)
                i += 1
        rec(fn.body)
        if changed:
            ast.fix_missing_locations(fn)
        return changed

    # ---------------------------------------------------------------- new optional parameters nobody passes
    def _passed_somewhere(self, fname, pname, index, self_fn=None, default=None):
        """Does any call in the package to a function of this name pass the parameter (by keyword, by position, or through * / **)?
        A call that passes, by keyword, a literal equal to the parameter's own default passes nothing new: it does not count, and
        when no other call passes the parameter the redundant keyword is removed from those calls."""
        key = (fname, pname, index)
        cache = self.__dict__.setdefault('_passed_cache', {})
        if key in cache:
            return cache[key]
        calls = self.__dict__.get('_calls_by_name')
        if calls is None:
            calls = {}
            for m in self.prog.modules.values():
                for n in ast.walk(m.tree):
                    if isinstance(n, ast.Call):
                        nm = n.func.attr if isinstance(n.func, ast.Attribute) else n.func.id if isinstance(n.func, ast.Name) else None
                        if nm is not None:
                            calls.setdefault(nm, []).append(n)
            self._calls_by_name = calls
        # other definitions of the same name (another class's method) explain calls with as many positional arguments as they take
        other_arity = []
        for c in self.prog.all_classes():
            f = c.methods.get(fname)
            if f is not None and f.node is not self_fn:
                n = len(f.node.args.posonlyargs + f.node.args.args)
                if n and f.node.args.args and f.node.args.args[0].arg in ('self', 'cls', 'mcs') and \
                        not any(_dotted(d) == 'staticmethod' for d in f.node.decorator_list):
                    n -= 1
                other_arity.append(n)
        res = False
        redundant = []
        for c in calls.get(fname, []):
            kws = [k for k in c.keywords if k.arg == pname]
            if kws and default is not None and all(_same_literal(k.value, default) for k in kws):
                redundant.append((c, kws))
                continue
            if kws:
                res = True
                break
            if any(k.arg is None for k in c.keywords) or any(isinstance(a, ast.Starred) for a in c.args):
                res = True
                break
            if index is not None and len(c.args) > index and not any(len(c.args) <= n for n in other_arity):
                res = True
                break
        if not res:
            for c, kws in redundant:
                c.keywords = [k for k in c.keywords if k not in kws]
        cache[key] = res
        return res

    def _new_default_params(self, fn):
        """A defaulted parameter that the reference tree does not have and that no call site in the package passes: the function
        is specialised to the default (the parameter is replaced by its literal default and the tests it decides are folded)."""
        known = VOCAB_PARAMS.get(fn.name)
        if known is None:
            return
        a = fn.args
        pos = a.posonlyargs + a.args
        cands = []
        ndef = len(a.defaults)
        for i, (x, d) in enumerate(zip(pos[len(pos) - ndef:], a.defaults)):
            cands.append((x.arg, d, len(pos) - ndef + i))
        for x, d in zip(a.kwonlyargs, a.kw_defaults):
            if d is not None:
                cands.append((x.arg, d, None))
        assigned = {n.id for n in walk_scope(fn) if isinstance(n, ast.Name) and isinstance(n.ctx, (ast.Store, ast.Del))}
        is_method = bool(pos) and pos[0].arg in ('self', 'cls', 'mcs')
        loads = {}
        pre = []
        for name, d, idx in cands:
            if name in known:
                continue
            if not (isinstance(d, ast.Constant) or (isinstance(d, ast.UnaryOp) and isinstance(d.operand, ast.Constant))):
                continue
            call_idx = None if idx is None else (idx - 1 if is_method else idx)
            if self._passed_somewhere(fn.name, name, call_idx, fn, default=d):
                continue
            if name in assigned:
                # `p=None` ... `if p is None: p = <today's value>`: the parameter becomes a local that starts at its default
                pre.append(ast.Assign(targets=[ast.Name(id=name, ctx=ast.Store())], value=copy.deepcopy(d), lineno=fn.lineno))
            else:
                loads[name] = d
            self._drop_param(fn, name)
        if not loads and not pre:
            return
        if loads:
            sub = Subst(loads=loads)
            fn.body = [sub.visit(st) for st in fn.body]
        doc = fn.body[:1] if fn.body and isinstance(fn.body[0], ast.Expr) and isinstance(fn.body[0].value, ast.Constant) and \
            isinstance(fn.body[0].value.value, str) else []
        fn.body = doc + pre + fn.body[len(doc):]
        _fold_constant_tests(fn)
        _fill_empty(fn)
        self.stats['consts'] += len(loads) + len(pre)

    @staticmethod
    def _drop_param(fn, name):
        a = fn.args
        pos = a.posonlyargs + a.args
        ndef = len(a.defaults)
        first_def = len(pos) - ndef
        for i, x in enumerate(pos):
            if x.arg == name and i >= first_def:
                del a.defaults[i - first_def]
                if x in a.args:
                    a.args.remove(x)
                else:
                    a.posonlyargs.remove(x)
                return
        for i, x in enumerate(a.kwonlyargs):
            if x.arg == name:
                del a.kwonlyargs[i]
                del a.kw_defaults[i]
                return

    def _first(self, fn, cls):
        """Name that denotes the receiver (instance / class) inside fn, or None."""
        if cls is None:
            return None
        if self.outer_first is not None:
            return None if self.outer_first in bound_names(fn) else self.outer_first
        if fn.args.args and not any(_dotted(d) == 'staticmethod' for d in fn.decorator_list):
            return fn.args.args[0].arg
        return None

    # ---------------------------------------------------------------- A. constants
    def _collect_consts(self):
        self.mod_consts = {}     # module name -> {NAME: expr}
        self.cls_consts = {}     # ClassInfo key -> {NAME: expr}
        stored_attrs = set()
        for m in self.prog.modules.values():
            for n in ast.walk(m.tree):
                if isinstance(n, ast.Attribute) and isinstance(n.ctx, (ast.Store, ast.Del)):
                    stored_attrs.add(n.attr)
        for m in self.prog.modules.values():
            counts = {}
            for st in m.tree.body:
                if isinstance(st, ast.Assign):
                    for t in st.targets:
                        for n in ast.walk(t):
                            if isinstance(n, ast.Name):
                                counts[n.id] = counts.get(n.id, 0) + 1
            d = {}
            for name, v in m.assigns.items():
                if name in VOCAB_NAMES or counts.get(name) != 1 or (name.startswith('__') and name.endswith('__')):
                    continue
                if not is_pure_literal(v):
                    v = _close_over(v, d)
                if v is not None and is_pure_literal(v):
                    d[name] = v
            self.mod_consts[m.name] = d
            for c in m.classes.values():
                cc = {}
                counts = {}
                for st in c.node.body:
                    if isinstance(st, ast.Assign):
                        for t in st.targets:
                            if isinstance(t, ast.Name):
                                counts[t.id] = counts.get(t.id, 0) + 1
                is_class = lambda n, _m=m: hasattr(self.prog.lookup(_m, n), 'mro')     # noqa: E731
                for name, v in c.attrs.items():
                    if name in VOCAB_NAMES or counts.get(name, 1) != 1 or name in stored_attrs or (name.startswith('__') and name.endswith('__')):
                        continue
                    if not is_pure_literal(v, 0, is_class):
                        v = _close_over(v, cc)       # NAME2 = len(NAME1) + 20: a constant written with earlier new constants
                    if v is not None and is_pure_literal(v, 0, is_class):
                        cc[name] = v
                self.cls_consts[c.key] = cc

    def _class_const(self, cls, name):
        if cls is None:
            return None
        for c in cls.mro():
            if name in c.attrs:
                return self.cls_consts.get(c.key, {}).get(name)
        return None

    def _new_property_expr(self, cls, name):
        """(receiver parameter, expression) of a NEW read-only property `name` of cls whose getter is `return <expr>` (extract-property
        refactoring); None for anything in the reference vocabulary, with a setter, overridden somewhere, or with a larger body."""
        if cls is None or name in VOCAB_FUNCS or name in VOCAB_NAMES or (name.startswith('__') and name.endswith('__')):
            return None
        pp = cls.find_plain_prop(name)
        if not pp or pp.get('set') is not None or pp.get('get') is None:
            return None
        if sum(1 for c in self.prog.all_classes() if name in c.plain_props or name in c.methods or name in c.attrs) != 1:
            return None
        g = pp['get'].node
        body = body_nodoc(g)
        if len(g.args.args) != 1 or len(body) != 1 or not isinstance(body[0], ast.Return) or body[0].value is None:
            return None
        if any(isinstance(n, (ast.Yield, ast.YieldFrom, ast.Await, ast.Lambda, ast.NamedExpr)) for n in ast.walk(body[0].value)):
            return None
        return g.args.args[0].arg, body[0].value

    def _subst_consts(self, fn, cls, m):
        canon = self
        first = self._first(fn, cls)
        bound = bound_names(fn)

        class T(ast.NodeTransformer):
            def visit_Attribute(self, node):
                self.generic_visit(node)
                if not isinstance(node.ctx, ast.Load):
                    return node
                v = None
                base = node.value
                if isinstance(base, ast.Name) and first is not None and base.id == first:
                    v = canon._class_const(cls, node.attr)
                    if v is None:
                        pe = canon._new_property_expr(cls, node.attr)
                        if pe is not None:
                            canon.stats['helpers'] += 1
                            return _relocate(Subst(loads={pe[0]: base}).visit(copy.deepcopy(pe[1])), node)
                elif isinstance(base, ast.Name) and base.id not in bound:
                    r = canon.prog.lookup(m, base.id)
                    if hasattr(r, 'mro'):
                        v = canon._class_const(r, node.attr)
                elif isinstance(base, ast.Call) and _dotted(base.func) == 'type' and len(base.args) == 1 and \
                        isinstance(base.args[0], ast.Name) and base.args[0].id == first:
                    v = canon._class_const(cls, node.attr)
                elif isinstance(base, ast.Attribute) and base.attr == '__class__' and isinstance(base.value, ast.Name) and base.value.id == first:
                    v = canon._class_const(cls, node.attr)
                if v is not None:
                    canon.stats['consts'] += 1
                    return _relocate(copy.deepcopy(v), node)
                return node

            def visit_Name(self, node):
                if isinstance(node.ctx, ast.Load) and node.id not in bound:
                    v = canon.mod_consts.get(m.name, {}).get(node.id)
                    if v is None and node.id in m.imports:
                        mod, orig = m.imports[node.id]
                        if orig is not None and mod in canon.mod_consts:
                            v = canon.mod_consts[mod].get(orig)
                    if v is not None:
                        canon.stats['consts'] += 1
                        return _relocate(copy.deepcopy(v), node)
                return node
        T().visit(fn)

    # ---------------------------------------------------------------- B. helpers
    def _resolve_callee(self, call, fn, cls, m, closures, hb=None):
        """-> (callee FunctionDef, receiver expr or None, kind) for an inlinable callee, else None."""
        f = call.func
        first = self._first(fn, cls)
        if any(isinstance(a, ast.Starred) for a in call.args) or any(k.arg is None for k in call.keywords):
            return None
        if isinstance(f, ast.Name):
            if f.id in closures:
                return closures[f.id], None, 'closure'
            if f.id in VOCAB_FUNCS or f.id in (hb if hb is not None else bound_names(fn)):
                return None
            r = m.functions.get(f.id)
            if r is None and f.id in m.imports:
                x = self.prog.lookup(m, f.id)
                r = x if hasattr(x, 'node') and getattr(x, 'cls', None) is None and hasattr(x, 'params') else None
            if r is not None and not r.node.decorator_list:
                return r.node, None, 'function'
            return None
        if isinstance(f, ast.Attribute):
            if f.attr in VOCAB_FUNCS or (f.attr.startswith('__') and f.attr.endswith('__')):
                return None
            owner = None
            recv = None
            static_recv = False
            if isinstance(f.value, ast.Name) and first is not None and f.value.id == first:
                owner, recv = cls, f.value
            elif isinstance(f.value, ast.Name) and f.value.id not in (hb if hb is not None else bound_names(fn)):
                r = self.prog.lookup(m, f.value.id)
                if hasattr(r, 'mro'):
                    owner = r
                    static_recv = True
            elif isinstance(f.value, ast.Call) and _dotted(f.value.func) == 'type' and len(f.value.args) == 1 and \
                    isinstance(f.value.args[0], ast.Name) and f.value.args[0].id == first:
                owner = cls
            if owner is None:
                # <simple expr>.newmethod(...): a method name the reference tree does not have and the program defines exactly once
                # (e.g. a new accessor on a field object reached through self.keymaterial) is that one definition
                if not is_simple(f.value):
                    return None
                defs = [c.methods[f.attr] for c in self.prog.all_classes() if f.attr in c.methods]
                if len(defs) != 1 or defs[0].node.decorator_list:
                    return None
                if any(f.attr in mm.functions for mm in self.prog.modules.values()):
                    return None
                return defs[0].node, f.value, 'method'
            fi = owner.find_method(f.attr)
            if fi is None:
                return None
            # a helper that some class overrides is dispatched dynamically: leave it alone
            ndefs = sum(1 for c in self.prog.all_classes() if f.attr in c.methods)
            if ndefs != 1 and not static_recv:       # K.h(obj, ..) names its definition: no dispatch
                return None
            decs = [_dotted(d) for d in fi.node.decorator_list]
            if any(d not in ('staticmethod', 'classmethod') for d in decs):
                return None
            if 'staticmethod' in decs:
                return fi.node, None, 'static'
            if 'classmethod' in decs:
                if recv is not None:
                    # self.helper(..) of a classmethod: cls is type(self)
                    tcall = ast.Call(func=ast.Name(id='type', ctx=ast.Load()), args=[ast.Name(id=recv.id, ctx=ast.Load())], keywords=[])
                    return fi.node, tcall, 'method'
                return fi.node, f.value, 'method'
            if recv is None:
                # K.m(obj, ...) unbound call
                if not call.args:
                    return None
                return fi.node, call.args[0], 'unbound'
            return fi.node, recv, 'method'
        return None

    def _devirtualise(self, fn, cls, m):
        """`self.h(a..)` where h is a NEW method (name not in the reference vocabulary) that subclasses of the host's class override
        is dynamic dispatch on the receiver's class.  It is spelled out as the chain of class tests it stands for,
            K1.h(self, a..) if isinstance(self, K1) else ... else K0.h(self, a..)
        (most derived override first, K0 = the definition the host's own class resolves to), so the explicit, statically bound
        calls can be inlined like any other new helper and every engine sees one arm per concrete receiver class.  Closed world:
        the classes of the program; the chain is verified against the MRO of every subclass of the host's class, else left alone."""
        if cls is None or self.outer_first is not None or not fn.args.args or fn.decorator_list and \
                any(_dotted(d) in ('staticmethod', 'classmethod') for d in fn.decorator_list):
            return False
        first = fn.args.args[0].arg
        if first in {n.id for n in walk_scope(fn) if isinstance(n, ast.Name) and isinstance(n.ctx, (ast.Store, ast.Del))}:
            return False
        canon = self
        plans = {}

        def plan(name):
            if name in plans:
                return plans[name]
            plans[name] = None
            if name in VOCAB_FUNCS or (name.startswith('__') and name.endswith('__')):
                return None
            definers = [c for c in self.prog.all_classes() if name in c.methods]
            if len(definers) < 2 or any(c.methods[name].node.decorator_list for c in definers):
                return None
            if any(name in mm.functions for mm in self.prog.modules.values()):
                return None

            def resolve(s):
                for k in s.mro():
                    if name in k.methods:
                        return k
                return None
            subs = [s for s in self.prog.all_classes() if cls in s.mro()]
            default = resolve(cls)
            if default is None or any(resolve(s) is None for s in subs):
                return None
            over = []
            for s in subs:
                r = resolve(s)
                if r is not default and r not in over:
                    over.append(r)
            if not over:
                return None
            over.sort(key=lambda k: -len(k.mro()))
            for s in subs:              # the chain must pick, for every concrete receiver class, the definition its MRO picks
                hit = next((k for k in over if k in s.mro()), default)
                if hit is not resolve(s):
                    return None
            for k in over + [default]:  # the class names must denote these classes where the host is written
                if self.prog.lookup(m, k.name) is not k or k.name in bound_names(fn):
                    return None
            plans[name] = (over, default)
            return plans[name]

        changed = [False]

        class T(ast.NodeTransformer):
            def visit_FunctionDef(self, node):
                return self.generic_visit(node) if node is fn else node

            def visit_Lambda(self, node):
                return node

            def visit_Call(self, node):
                self.generic_visit(node)
                f = node.func
                if not (isinstance(f, ast.Attribute) and isinstance(f.value, ast.Name) and f.value.id == first):
                    return node
                if any(isinstance(a, ast.Starred) for a in node.args) or any(k.arg is None for k in node.keywords):
                    return node
                pl = plan(f.attr)
                if pl is None:
                    return node
                over, default = pl

                def bound(k):
                    c = ast.Call(func=ast.Attribute(value=ast.Name(id=k.name, ctx=ast.Load()), attr=f.attr, ctx=ast.Load()),
                                 args=[ast.Name(id=first, ctx=ast.Load())] + [copy.deepcopy(a) for a in node.args],
                                 keywords=[copy.deepcopy(k_) for k_ in node.keywords])
                    return _relocate(c, node)
                e = bound(default)
                for k in reversed(over):
                    test = ast.Call(func=ast.Name(id='isinstance', ctx=ast.Load()),
                                    args=[ast.Name(id=first, ctx=ast.Load()), ast.Name(id=k.name, ctx=ast.Load())], keywords=[])
                    e = _relocate(ast.IfExp(test=test, body=bound(k), orelse=e), node)
                changed[0] = True
                canon.stats['spellings'] += 1
                return e
        T().visit(fn)
        return changed[0]

    def _fresh(self, base):
        self.counter += 1
        return '__h%d_%s' % (self.counter, base)

    def _bind(self, callee, recv, kind, call, host_bound, allow_temps):
        """-> (pre statements, Subst) binding the callee's parameters to the call's arguments, or None."""
        a = callee.args
        if a.kwarg or a.posonlyargs:
            return None
        params = [x.arg for x in a.args]
        args = list(call.args)
        loads, renames, pre = {}, {}, []
        vararg_pair = None
        if a.vararg:
            # def h(self, *args): ... f(*args) ...   called as h(x, y, z): `args` is the tuple of the extra positional arguments;
            # only when they are simple (safe to duplicate) and the tuple is never rebound
            nfixed = len(params) - (1 if kind in ('method', 'unbound') and params else 0)
            fixed_args = args[1:] if kind == 'unbound' else args
            extra = fixed_args[nfixed:]
            nuse = sum(1 for n in ast.walk(callee) if isinstance(n, ast.Name) and n.id == a.vararg.arg and isinstance(n.ctx, ast.Load))
            if not all(is_simple(e) for e in extra) and nuse > 1:
                return None
            vararg_pair = (a.vararg.arg, ast.Tuple(elts=[copy.deepcopy(e) for e in extra], ctx=ast.Load()))
            args = args[:len(args) - len(extra)] if extra else args
        assigned = {n.id for n in walk_scope(callee) if isinstance(n, ast.Name) and isinstance(n.ctx, (ast.Store, ast.Del))}
        uses = {}
        for n in ast.walk(callee):
            if isinstance(n, ast.Name) and isinstance(n.ctx, ast.Load):
                uses[n.id] = uses.get(n.id, 0) + 1
        if kind in ('method',) and params:
            p0 = params.pop(0)
            pairs = [(p0, recv)]
        elif kind == 'unbound' and params:
            p0 = params.pop(0)
            args = args[1:]
            pairs = [(p0, recv)]
        else:
            pairs = []
        if len(args) > len(params):
            return None
        pairs += list(zip(params, args))
        got = {p for p, _ in pairs}
        for k in call.keywords:
            if k.arg not in params and k.arg not in [x.arg for x in a.kwonlyargs] or k.arg in got:
                return None
            pairs.append((k.arg, k.value))
            got.add(k.arg)
        defaults = dict(zip(params[len(params) - len(a.defaults):], a.defaults)) if a.defaults else {}
        for x, d in zip(a.kwonlyargs, a.kw_defaults):
            if d is not None:
                defaults[x.arg] = d
        for p in params + [x.arg for x in a.kwonlyargs]:
            if p not in got:
                if p not in defaults:
                    return None
                pairs.append((p, defaults[p]))
        if vararg_pair is not None:
            if vararg_pair[0] in assigned:
                return None
            loads[vararg_pair[0]] = vararg_pair[1]
        for p, e in pairs:
            if is_simple(e) and p not in assigned:
                loads[p] = e
            elif uses.get(p, 0) <= 1 and p not in assigned and not allow_temps:
                loads[p] = e
            elif not allow_temps:
                return None
            else:
                if isinstance(e, ast.Name) and e.id == p and p not in host_bound - {p}:
                    continue
                t = p if (p not in host_bound and kind != 'closure') else self._fresh(p)
                if isinstance(e, ast.Name) and e.id == t:
                    continue
                pre.append(ast.Assign(targets=[ast.Name(id=t, ctx=ast.Store())], value=copy.deepcopy(e), lineno=call.lineno))
                if t != p:
                    renames[p] = t
        # callee locals that collide with host names get fresh names (closures share the host's scope on purpose)
        if kind != 'closure':
            for n in bound_names(callee) - set(p for p, _ in pairs):
                if n in host_bound:
                    renames[n] = self._fresh(n)
        else:
            # closure parameters shadow host names only inside the closure
            pass
        return pre, Subst(loads, renames)

    def _inline_round(self, fn, cls, m):
        changed = [False]
        host_bound = bound_names(fn)
        closures = {}
        for n in walk_scope(fn):
            if isinstance(n, ast.FunctionDef) and n is not fn and not n.decorator_list:
                closures[n.name] = n
        # a closure that is rebound / passed around as a value is left alone
        for n in walk_scope(fn):
            if isinstance(n, ast.Name) and n.id in closures and isinstance(n.ctx, ast.Load):
                pass
        canon = self
        qual = (cls.name + '.' if cls is not None else '') + fn.name

        def callee_ok(c):
            if any(isinstance(x, (ast.Global, ast.Nonlocal)) for x in ast.walk(c)):
                return False
            for x in ast.walk(c):           # recursion
                if isinstance(x, ast.Call) and (_dotted(x.func) or '').split('.')[-1] == c.name:
                    return False
            return True

        def find_calls(expr_nodes):
            out = []
            for e in expr_nodes:
                if e is None:
                    continue
                for n in ast.walk(e):
                    if isinstance(n, ast.Call):
                        r = canon._resolve_callee(n, fn, cls, m, closures, host_bound)
                        if r is not None and callee_ok(r[0]) and r[0] is not fn:
                            out.append((n, r))
            return out

        def in_nested_scope(stmt, call):
            """Is the call inside a lambda / comprehension / nested def of this statement (no hoisting possible)?"""
            def rec(n, nested):
                if n is call:
                    return nested
                for ch in ast.iter_child_nodes(n):
                    cond = isinstance(n, (ast.Lambda, ast.ListComp, ast.SetComp, ast.DictComp, ast.GeneratorExp, ast.FunctionDef)) or \
                        (isinstance(n, ast.IfExp) and ch is not n.test) or \
                        (isinstance(n, ast.BoolOp) and ch is not n.values[0]) or \
                        (isinstance(n, ast.Compare) and len(n.ops) > 1 and ch is not n.left and ch is not n.comparators[0])
                    r = rec(ch, nested or cond)
                    if r is not None:
                        return r
                return None
            return bool(rec(stmt, False))

        def replace(root, old, new):
            class R(ast.NodeTransformer):
                def visit(self, node):
                    if node is old:
                        return new
                    return self.generic_visit(node)
            return R().visit(root)

        def splice_stmts(callee, sub, line):
            body = [sub.visit(copy.deepcopy(s)) for s in body_nodoc(callee)]
            for s in body:
                for n in ast.walk(s):
                    if hasattr(n, 'lineno'):
                        n.lineno = line
                        n.end_lineno = line
            return body

        def own_exprs(s):
            if isinstance(s, (ast.Assign, ast.AugAssign, ast.AnnAssign, ast.Return, ast.Expr, ast.Raise, ast.Assert, ast.Delete)):
                return [s], True
            if isinstance(s, ast.If):
                return [s.test], True
            if isinstance(s, ast.For):
                return [s.iter], True
            if isinstance(s, ast.While):
                return [s.test], False
            if isinstance(s, ast.With):
                return [i.context_expr for i in s.items], True
            return [], False

        def do_block(stmts):
            out = []
            for s in stmts:
                if isinstance(s, (ast.FunctionDef, ast.AsyncFunctionDef, ast.ClassDef)):
                    out.append(s)
                    continue
                if isinstance(s, ast.For) and not s.orelse and len(s.body) == 1 and isinstance(s.body[0], ast.Expr) and \
                        isinstance(s.body[0].value, ast.Yield) and isinstance(s.body[0].value.value, ast.Name) and isinstance(s.target, ast.Name) and \
                        s.body[0].value.value.id == s.target.id and isinstance(s.iter, ast.Call):
                    # `for v in self._helper(): yield v` re-yields a helper generator: the same as `yield from self._helper()`
                    r = canon._resolve_callee(s.iter, fn, cls, m, closures)
                    uses = sum(1 for n in ast.walk(fn) if isinstance(n, ast.Name) and n.id == s.target.id)
                    if r is not None and is_generator(r[0]) and callee_ok(r[0]) and r[0] is not fn and uses == 2:
                        s = ast.copy_location(ast.Expr(value=ast.copy_location(ast.YieldFrom(value=s.iter), s)), s)
                exprs, hoistable = own_exprs(s)
                done = False
                for call, (callee, recv, kind) in find_calls(exprs):
                    nested = in_nested_scope(s, call)
                    body = body_nodoc(callee)
                    rets = returns_in(callee)
                    gen = is_generator(callee)
                    line = getattr(s, 'lineno', 1)
                    # 1. expression helper: single `return E`
                    if len(body) == 1 and isinstance(body[0], ast.Return) and body[0].value is not None and not gen:
                        b = canon._bind(callee, recv, kind, call, host_bound, allow_temps=(hoistable and not nested))
                        if b is None:
                            continue
                        pre, sub = b
                        e = _relocate(sub.visit(copy.deepcopy(body[0].value)), call)
                        s = replace(s, call, e)
                        out.extend(pre)
                        done = True
                        canon.inlined.append((callee.name, qual))
                        break
                    if nested or not hoistable:
                        continue
                    b = canon._bind(callee, recv, kind, call, host_bound, allow_temps=True)
                    if b is None:
                        continue
                    pre, sub = b
                    # 2. tail call
                    if isinstance(s, ast.Return) and s.value is call and not gen:
                        new = pre + splice_stmts(callee, sub, line)
                        if not (new and _always_leaves(new)):
                            new.append(ast.Return(value=ast.Constant(value=None), lineno=line))
                        out.extend(new)
                        s = None
                    # 3. yield from helper()
                    elif gen:
                        if isinstance(s, ast.Expr) and isinstance(s.value, ast.YieldFrom) and s.value.value is call and \
                                not any(r.value is not None for r in rets):
                            bodyc = splice_stmts(callee, sub, line)
                            if rets:
                                if return_inside_loop(callee):
                                    continue
                                bodyc = canon._once(bodyc, None, line)
                            out.extend(pre + bodyc)
                            s = None
                        else:
                            continue
                    # 4. value unused
                    elif isinstance(s, ast.Expr) and s.value is call:
                        bodyc = splice_stmts(callee, sub, line)
                        trailing = bodyc and isinstance(bodyc[-1], ast.Return)
                        if len(rets) == 0:
                            pass
                        elif len(rets) == 1 and trailing:
                            last = bodyc.pop()
                            if last.value is not None and not is_simple(last.value):
                                bodyc.append(ast.Expr(value=last.value, lineno=line))
                        else:
                            bodyc = canon._once(bodyc, None, line, deep=return_inside_loop(callee))
                        out.extend(pre + bodyc)
                        s = None
                    # 5. value used
                    else:
                        bodyc = splice_stmts(callee, sub, line)
                        trailing = bodyc and isinstance(bodyc[-1], ast.Return)
                        if len(rets) == 1 and trailing and bodyc[-1].value is not None:
                            last = bodyc.pop()
                            out.extend(pre + bodyc)
                            s = replace(s, call, _relocate(last.value, call))
                        else:
                            if not rets:
                                continue
                            rv = canon._fresh('ret')
                            bodyc = canon._once(bodyc, rv, line, deep=return_inside_loop(callee))
                            out.extend(pre + bodyc)
                            s = replace(s, call, ast.copy_location(ast.Name(id=rv, ctx=ast.Load()), call))
                    done = True
                    canon.inlined.append((callee.name, qual))
                    break
                if done:
                    changed[0] = True
                    canon.stats['helpers'] += 1
                if s is None:
                    continue
                for name in ('body', 'orelse', 'finalbody'):
                    sub_ = getattr(s, name, None)
                    if isinstance(sub_, list) and sub_ and isinstance(sub_[0], ast.stmt):
                        setattr(s, name, do_block(sub_))
                for h in getattr(s, 'handlers', []) or []:
                    h.body = do_block(h.body)
                out.append(s)
            return out

        fn.body = do_block(fn.body) or [ast.Pass(lineno=fn.lineno)]
        if changed[0]:
            # closures that are no longer referenced disappear
            for _ in range(3):
                used = {n.id for n in ast.walk(fn) if isinstance(n, ast.Name) and isinstance(n.ctx, ast.Load)}

                class Dead(ast.NodeTransformer):
                    def visit_ClassDef(self, node):
                        return node                 # methods of a local class are not closures of the host

                    def visit_FunctionDef(self, node):
                        if node is fn:
                            return self.generic_visit(node)
                        if node.name not in used and not node.decorator_list:
                            return None
                        return node
                Dead().visit(fn)
            _fill_empty(fn)
        return changed[0]

    def _once(self, body, retvar, line, deep=False):
        """Wrap statements with early returns in a one-iteration loop: return E -> [retvar = E]; break.
        deep: a return may sit inside a loop of the body; it then also raises a fresh flag, and every loop that contains a return is
        followed by `if flag: break`, so the return leaves all enclosing loops (a `break` skips the loops' else clauses as a return does)."""
        flag = self._fresh('left') if deep else None

        def leave(node, depth):
            out = []
            if retvar is not None:
                out.append(ast.Assign(targets=[ast.Name(id=retvar, ctx=ast.Store())],
                                      value=node.value if node.value is not None else ast.Constant(value=None), lineno=line))
            elif node.value is not None and not is_simple(node.value):
                out.append(ast.Expr(value=node.value, lineno=line))
            if depth:
                out.append(ast.Assign(targets=[ast.Name(id=flag, ctx=ast.Store())], value=ast.Constant(value=True), lineno=line))
            out.append(ast.Break(lineno=line))
            return out

        def conv(stmts, depth):
            out = []
            for s in stmts:
                if isinstance(s, ast.Return):
                    out.extend(leave(s, depth))
                    continue
                if isinstance(s, (ast.FunctionDef, ast.AsyncFunctionDef, ast.ClassDef)):
                    out.append(s)
                    continue
                loop = isinstance(s, (ast.For, ast.While))
                if loop and not deep:
                    out.append(s)           # callers without `deep` have excluded returns inside loops
                    continue
                inner = loop and any(isinstance(n, ast.Return) for b in s.body for n in walk_scope_stmt(b))
                for name in ('body', 'orelse', 'finalbody'):
                    sub_ = getattr(s, name, None)
                    if isinstance(sub_, list) and sub_ and isinstance(sub_[0], ast.stmt):
                        setattr(s, name, conv(sub_, depth + 1 if (loop and name == 'body') else depth))
                for h in (getattr(s, 'handlers', []) or []) + (getattr(s, 'cases', []) or []):
                    h.body = conv(h.body, depth)
                out.append(s)
                if inner:
                    out.append(ast.If(test=ast.Name(id=flag, ctx=ast.Load(), lineno=line, col_offset=0), body=[ast.Break(lineno=line)], orelse=[], lineno=line))
            return out
        new = conv(body, 0)
        if retvar is not None and not _always_leaves(new):
            new.append(ast.Assign(targets=[ast.Name(id=retvar, ctx=ast.Store())], value=ast.Constant(value=None), lineno=line))
        self.counter += 1
        once = ast.For(target=ast.Name(id='%s%d' % (ONCE, self.counter), ctx=ast.Store()),
                       iter=ast.Tuple(elts=[ast.Constant(value=0)], ctx=ast.Load()), body=new + [ast.Break(lineno=line)] if not _always_leaves(new) else new,
                       orelse=[], lineno=line)
        if deep:
            return [ast.Assign(targets=[ast.Name(id=flag, ctx=ast.Store())], value=ast.Constant(value=False), lineno=line), once]
        return [once]

    # ---------------------------------------------------------------- [f(x) for x in it if c]  (statement)  ->  for loop
    def _stmt_comprehensions(self, fn):
        """A list / set comprehension evaluated as a statement (its value is discarded) is the loop it abbreviates:
        `[f(x) for x in it if c]` -> `for x in it: if c: f(x)`.  A comprehension variable that is also a name of the
        function's scope gets a fresh name (the comprehension had its own scope)."""
        canon = self

        def outside_names(comp):
            inside = {id(n) for n in ast.walk(comp)}
            return {n.id for n in ast.walk(fn) if isinstance(n, ast.Name) and id(n) not in inside} | \
                {x.arg for x in fn.args.posonlyargs + fn.args.args + fn.args.kwonlyargs}

        def convert(s):
            comp = s.value
            if any(g.is_async for g in comp.generators) or any(isinstance(n, (ast.Yield, ast.YieldFrom, ast.Await, ast.NamedExpr)) for n in ast.walk(comp)):
                return s
            own = {n.id for g in comp.generators for n in ast.walk(g.target) if isinstance(n, ast.Name)}
            clash = own & outside_names(comp)
            if clash:
                ren = {n: canon._fresh(n) for n in clash}
                first_iter = comp.generators[0].iter          # evaluated in the enclosing scope: not renamed
                comp.generators[0].iter = ast.Constant(value=None)
                comp = Subst(renames=ren).visit(comp)
                comp.generators[0].iter = first_iter
            body = [ast.Expr(value=comp.elt, lineno=s.lineno)]
            for g in reversed(comp.generators):
                if g.ifs:
                    test = g.ifs[0] if len(g.ifs) == 1 else ast.BoolOp(op=ast.And(), values=list(g.ifs))
                    body = [ast.If(test=test, body=body, orelse=[], lineno=s.lineno)]
                t = g.target
                for n in ast.walk(t):
                    if isinstance(n, (ast.Name, ast.Tuple, ast.List, ast.Starred)):
                        n.ctx = ast.Store()
                body = [ast.For(target=t, iter=g.iter, body=body, orelse=[], lineno=s.lineno)]
            canon.stats['spellings'] += 1
            new = body[0]
            for n in ast.walk(new):
                if isinstance(n, (ast.stmt, ast.expr)) and not hasattr(n, 'lineno'):
                    n.lineno = s.lineno
            return ast.copy_location(new, s)

        def rec(stmts):
            out = []
            for s in stmts:
                if isinstance(s, (ast.FunctionDef, ast.AsyncFunctionDef, ast.ClassDef)):
                    out.append(s)
                    continue
                if isinstance(s, ast.Expr) and isinstance(s.value, (ast.ListComp, ast.SetComp)):
                    s = convert(s)
                for name in ('body', 'orelse', 'finalbody'):
                    sub_ = getattr(s, name, None)
                    if isinstance(sub_, list) and sub_ and isinstance(sub_[0], ast.stmt):
                        setattr(s, name, rec(sub_))
                for h in getattr(s, 'handlers', []) or []:
                    h.body = rec(h.body)
                out.append(s)
            return out
        fn.body = rec(fn.body)

    # ---------------------------------------------------------------- match on values  ->  if / elif chain
    def _match_to_if(self, fn):
        """match s: case V: A; case W | X: B; case _: C   ->   if s == V: A elif s == W or s == X: B else: C
        (value / singleton / or-patterns and the wildcard only; anything that binds names is left alone)."""
        if not hasattr(ast, 'Match'):
            return
        canon = self

        def test_of(pat, subj):
            if isinstance(pat, ast.MatchValue):
                return ast.Compare(left=copy.deepcopy(subj), ops=[ast.Eq()], comparators=[pat.value])
            if isinstance(pat, ast.MatchSingleton):
                return ast.Compare(left=copy.deepcopy(subj), ops=[ast.Is()], comparators=[ast.Constant(value=pat.value)])
            if isinstance(pat, ast.MatchOr):
                parts = [test_of(p, subj) for p in pat.patterns]
                return None if any(p is None for p in parts) else ast.BoolOp(op=ast.Or(), values=parts)
            return None

        def convert(node):
            subj = node.subject
            pre = []
            if not is_simple(subj):
                name = canon._fresh('subject')
                pre.append(ast.Assign(targets=[ast.Name(id=name, ctx=ast.Store())], value=subj, lineno=node.lineno))
                subj = ast.Name(id=name, ctx=ast.Load())
            arms = []
            for i, c in enumerate(node.cases):
                wild = isinstance(c.pattern, ast.MatchAs) and c.pattern.pattern is None and c.pattern.name is None
                if wild and c.guard is None:
                    if i != len(node.cases) - 1:
                        return None
                    arms.append((None, c.body))
                    continue
                t = ast.Constant(value=True) if wild else test_of(c.pattern, subj)
                if t is None:
                    return None
                if c.guard is not None:
                    t = c.guard if wild else ast.BoolOp(op=ast.And(), values=[t, c.guard])
                arms.append((t, c.body))
            chain = []
            for t, body in reversed(arms):
                body = rec(body)
                if t is None:
                    chain = body
                else:
                    chain = [ast.If(test=t, body=body, orelse=chain, lineno=node.lineno)]
            for n in chain + pre:
                ast.copy_location(n, node)
                ast.fix_missing_locations(n)
            canon.stats['spellings'] += 1
            return pre + chain

        def rec(stmts):
            out = []
            for s in stmts:
                if isinstance(s, (ast.FunctionDef, ast.AsyncFunctionDef, ast.ClassDef)):
                    out.append(s)
                    continue
                if isinstance(s, ast.Match):
                    new = convert(s)
                    if new is not None:
                        out.extend(new or [ast.Pass(lineno=s.lineno)])
                        continue
                    for c in s.cases:
                        c.body = rec(c.body)
                    out.append(s)
                    continue
                for name in ('body', 'orelse', 'finalbody'):
                    sub_ = getattr(s, name, None)
                    if isinstance(sub_, list) and sub_ and isinstance(sub_[0], ast.stmt):
                        setattr(s, name, rec(sub_))
                for h in getattr(s, 'handlers', []) or []:
                    h.body = rec(h.body)
                out.append(s)
            return out
        fn.body = rec(fn.body)

    # ---------------------------------------------------------------- v = a if c else b  ->  if statement
    def _hoist_ifexp(self, fn):
        canon = self

        def pure_test(t):
            for n in ast.walk(t):
                if isinstance(n, (ast.Yield, ast.YieldFrom, ast.Await, ast.NamedExpr, ast.Lambda)):
                    return False
            return True

        def rec(stmts):
            out = []
            for s in stmts:
                if isinstance(s, (ast.FunctionDef, ast.AsyncFunctionDef, ast.ClassDef)):
                    out.append(s)
                    continue
                v = getattr(s, 'value', None)
                if isinstance(s, (ast.Assign, ast.AugAssign, ast.AnnAssign, ast.Return, ast.Expr)) and isinstance(v, ast.IfExp) and pure_test(v.test) and \
                        not (isinstance(s, ast.Assign) and any(not _plain_target(t) for t in s.targets)) and \
                        not (isinstance(s, ast.AugAssign) and not isinstance(s.target, (ast.Name, ast.Attribute))):
                    a, b = copy.deepcopy(s), copy.deepcopy(s)
                    a.value, b.value = v.body, v.orelse
                    new = ast.If(test=v.test, body=rec([a]), orelse=rec([b]), lineno=s.lineno)
                    out.append(ast.copy_location(new, s))
                    canon.stats['spellings'] += 1
                    continue
                for name in ('body', 'orelse', 'finalbody'):
                    sub_ = getattr(s, name, None)
                    if isinstance(sub_, list) and sub_ and isinstance(sub_[0], ast.stmt):
                        setattr(s, name, rec(sub_))
                for h in getattr(s, 'handlers', []) or []:
                    h.body = rec(h.body)
                out.append(s)
            return out
        fn.body = rec(fn.body)

    # ---------------------------------------------------------------- C. local aliases
    def _local_aliases(self, fn):
        params = {x.arg for x in fn.args.posonlyargs + fn.args.args + fn.args.kwonlyargs}
        stores = {}
        for n in walk_scope(fn):
            if isinstance(n, ast.Name) and isinstance(n.ctx, (ast.Store, ast.Del)):
                stores[n.id] = stores.get(n.id, 0) + 1
        # names rebound in nested scopes / loops count as multiply assigned
        for n in ast.walk(fn):
            if isinstance(n, (ast.FunctionDef, ast.Lambda)) and n is not fn:
                for x in ast.walk(n):
                    if isinstance(x, ast.Name) and isinstance(x.ctx, ast.Store):
                        stores[x.id] = stores.get(x.id, 0) + 2
            if isinstance(n, (ast.Global, ast.Nonlocal)):
                for x in n.names:
                    stores[x] = 9
        attr_stores = set()
        for n in ast.walk(fn):
            if isinstance(n, ast.Attribute) and isinstance(n.ctx, (ast.Store, ast.Del)):
                d = _dotted(n)
                if d:
                    attr_stores.add(d)
        cands = {}
        first_stmts = {}

        def scan(stmts, depth_loop):
            for s in stmts:
                if isinstance(s, (ast.FunctionDef, ast.AsyncFunctionDef, ast.ClassDef)):
                    continue
                if isinstance(s, ast.Assign) and len(s.targets) == 1 and isinstance(s.targets[0], ast.Name):
                    name = s.targets[0].id
                    v = s.value
                    if stores.get(name) == 1 and name not in params and not name.startswith(ONCE):
                        if isinstance(v, ast.Constant) or (isinstance(v, ast.UnaryOp) and isinstance(v.operand, ast.Constant)) or \
                                (isinstance(v, ast.Tuple) and v.elts and all(isinstance(e, ast.Constant) for e in v.elts)) or \
                                (isinstance(v, ast.Call) and _dotted(v.func) == 're.compile' and is_pure_literal(v)):     # a locally precompiled pattern
                            cands[name] = v
                            first_stmts[name] = s
                for nm in ('body', 'orelse', 'finalbody'):
                    sub_ = getattr(s, nm, None)
                    if isinstance(sub_, list) and sub_ and isinstance(sub_[0], ast.stmt):
                        scan(sub_, depth_loop or isinstance(s, (ast.For, ast.While)))
                for h in getattr(s, 'handlers', []) or []:
                    scan(h.body, depth_loop)
        scan(fn.body, False)
        # an alias is only safe when it is defined at the top level of the function body (dominates all uses)
        top = {id(s) for s in fn.body}
        cands = {k: v for k, v in cands.items() if id(first_stmts[k]) in top or isinstance(v, (ast.Constant, ast.UnaryOp, ast.Tuple, ast.Call))}
        # attribute aliases of properties with side effects are not our business: attribute reads are treated as pure
        if not cands:
            return False
        sub = Subst(loads=cands)
        new_body = []
        for s in fn.body:
            new_body.append(sub.visit(s))
        fn.body = new_body

        # drop the now-dead single assignments
        class Drop(ast.NodeTransformer):
            def visit_FunctionDef(self, node):
                return node if node is not fn else self.generic_visit(node)

            def visit_Assign(self, node):
                if len(node.targets) == 1 and isinstance(node.targets[0], ast.Name) and node.targets[0].id in cands:
                    return None
                return node
        Drop().visit(fn)
        _fill_empty(fn)
        self.stats['aliases'] += len(cands)
        return True

    # ---------------------------------------------------------------- for ..: if c: continue; REST  ->  for ..: if not c: REST
    def _continue_guard(self, fn):
        """A guard clause at the top level of a loop body is the nested-if form of the same loop."""
        def fold(stmts):
            # stmts end the loop body: `continue` at their top level and falling off their end are the same thing
            for i, st in enumerate(stmts):
                if isinstance(st, ast.If) and not st.orelse and len(st.body) == 1 and isinstance(st.body[0], ast.Continue) and i + 1 < len(stmts):
                    t = st.test
                    if isinstance(t, ast.UnaryOp) and isinstance(t.op, ast.Not):
                        neg = t.operand
                    elif isinstance(t, ast.Compare) and len(t.ops) == 1 and type(t.ops[0]) in NEG:
                        neg = ast.Compare(left=t.left, ops=[NEG[type(t.ops[0])]()], comparators=t.comparators)
                    else:
                        neg = ast.UnaryOp(op=ast.Not(), operand=t)
                    new = ast.If(test=ast.copy_location(neg, t), body=fold(stmts[i + 1:]), orelse=[])
                    self.stats['spellings'] += 1
                    return stmts[:i] + [ast.copy_location(new, st)]
            return stmts
        for loop in list(walk_scope(fn)):
            if isinstance(loop, (ast.For, ast.While)):
                loop.body = fold(loop.body)

    # ---------------------------------------------------------------- if not c: A else: B
    def _swap_negated_if(self, fn):
        for n in ast.walk(fn):
            if isinstance(n, ast.If) and n.orelse and isinstance(n.test, ast.UnaryOp) and isinstance(n.test.op, ast.Not) and \
                    not (len(n.orelse) == 1 and isinstance(n.orelse[0], ast.If)):
                n.test = n.test.operand
                n.body, n.orelse = n.orelse, n.body
                self.stats['spellings'] += 1


def _plain_target(t):
    if isinstance(t, (ast.Tuple, ast.List)):
        return all(_plain_target(e) for e in t.elts)
    return isinstance(t, (ast.Name, ast.Attribute))


def _const_truth(e):
    """True / False when the expression is a literal whose truth is known, else None."""
    if isinstance(e, ast.Constant):
        return bool(e.value)
    if isinstance(e, ast.UnaryOp) and isinstance(e.op, ast.Not):
        v = _const_truth(e.operand)
        return None if v is None else (not v)
    if isinstance(e, ast.Compare) and len(e.ops) == 1 and isinstance(e.left, ast.Constant) and isinstance(e.comparators[0], ast.Constant):
        l, r, op = e.left.value, e.comparators[0].value, e.ops[0]
        try:
            if isinstance(op, ast.Is):
                return l is r if (l is None or r is None or isinstance(l, bool) or isinstance(r, bool)) else None
            if isinstance(op, ast.IsNot):
                return l is not r if (l is None or r is None or isinstance(l, bool) or isinstance(r, bool)) else None
            if isinstance(op, ast.Eq):
                return l == r
            if isinstance(op, ast.NotEq):
                return l != r
        except Exception:
            return None
    if isinstance(e, ast.BoolOp):
        vals = [_const_truth(v) for v in e.values]
        if isinstance(e.op, ast.And):
            if any(v is False for v in vals):
                return False
            if all(v is True for v in vals):
                return True
        else:
            if any(v is True for v in vals):
                return True
            if all(v is False for v in vals):
                return False
    return None


def _fold_constant_tests(fn):
    """if <literal test>: A else: B -> the arm taken; x if <literal> else y -> the arm; `c and X` / `c or X` with a literal c."""
    class F(ast.NodeTransformer):
        def visit_FunctionDef(self, node):
            return self.generic_visit(node) if node is fn else node

        def visit_If(self, node):
            self.generic_visit(node)
            t = _const_truth(node.test)
            if t is True:
                return node.body
            if t is False:
                return node.orelse or None
            return node

        def visit_IfExp(self, node):
            self.generic_visit(node)
            t = _const_truth(node.test)
            if t is True:
                return node.body
            if t is False:
                return node.orelse
            return node

        def visit_BoolOp(self, node):
            self.generic_visit(node)
            vals = list(node.values)
            if isinstance(node.op, ast.Or):
                while len(vals) > 1 and _const_truth(vals[0]) is False:
                    vals.pop(0)
                if _const_truth(vals[0]) is True:
                    return vals[0]
            else:
                while len(vals) > 1 and _const_truth(vals[0]) is True:
                    vals.pop(0)
                if _const_truth(vals[0]) is False:
                    return vals[0]
            if len(vals) == 1:
                return vals[0]
            node.values = vals
            return node
    F().visit(fn)


def _always_leaves(stmts):
    if not stmts:
        return False
    last = stmts[-1]
    if isinstance(last, (ast.Return, ast.Raise, ast.Break, ast.Continue)):
        return True
    if isinstance(last, ast.If):
        return bool(last.orelse) and _always_leaves(last.body) and _always_leaves(last.orelse)
    return False


def _fill_empty(fn):
    for n in ast.walk(fn):
        for name in ('body', 'orelse', 'finalbody'):
            sub_ = getattr(n, name, None)
            if name == 'body' and isinstance(sub_, list) and not sub_ and isinstance(n, (ast.If, ast.For, ast.While, ast.With, ast.Try, ast.FunctionDef,
                                                                                         ast.ExceptHandler)):
                n.body = [ast.Pass(lineno=getattr(n, 'lineno', 1))]


# ----------------------------------------------------------------------------------------------- D. spellings
NEG = {ast.Eq: ast.NotEq, ast.NotEq: ast.Eq, ast.In: ast.NotIn, ast.NotIn: ast.In, ast.Is: ast.IsNot, ast.IsNot: ast.Is}
STD_SIGS = {
    'fromtimestamp': ['timestamp', 'tz'],
    'aes_key_unwrap': ['wrapping_key', 'wrapped_key', 'backend'],
    'aes_key_wrap': ['wrapping_key', 'key_to_wrap', 'backend'],
}
RE_FUNCS = {'match': 1, 'search': 1, 'fullmatch': 1, 'findall': 1, 'finditer': 1, 'split': 1, 'sub': 2, 'subn': 2}


class Spell(ast.NodeTransformer):
    def __init__(self, canon, fn, cls, m):
        self.canon, self.fn, self.cls, self.m = canon, fn, cls, m
        self.first = canon._first(fn, cls)
        self.in_test = 0

    def _hit(self):
        self.canon.stats['spellings'] += 1

    def visit_FunctionDef(self, node):
        if node is self.fn:
            return self.generic_visit(node)
        return node

    def visit_UnaryOp(self, node):
        self.generic_visit(node)
        if isinstance(node.op, ast.Not) and isinstance(node.operand, ast.Compare) and len(node.operand.ops) == 1 and \
                type(node.operand.ops[0]) in NEG:
            c = node.operand
            self._hit()
            return ast.copy_location(ast.Compare(left=c.left, ops=[NEG[type(c.ops[0])]()], comparators=c.comparators), node)
        if isinstance(node.op, ast.Not) and isinstance(node.operand, ast.UnaryOp) and isinstance(node.operand.op, ast.Not) and self.in_test:
            return node.operand.operand
        return node

    def visit_If(self, node):
        node.test = self._test(node.test)
        node.body = [self.visit(s) for s in node.body]
        node.orelse = [self.visit(s) for s in node.orelse]
        node.body = _flat(node.body)
        node.orelse = _flat(node.orelse, True)
        return node

    def visit_While(self, node):
        node.test = self._test(node.test)
        node.body = _flat([self.visit(s) for s in node.body])
        node.orelse = _flat([self.visit(s) for s in node.orelse], True)
        return node

    def visit_IfExp(self, node):
        node.test = self._test(node.test)
        node.body = self.visit(node.body)
        node.orelse = self.visit(node.orelse)
        return node

    def _test(self, t):
        """Normalise an expression in boolean position."""
        if isinstance(t, ast.BoolOp):
            t.values = [self._test(v) for v in t.values]
            return t
        if isinstance(t, ast.UnaryOp) and isinstance(t.op, ast.Not):
            t.operand = self._test(t.operand)
            return self.visit_UnaryOp_post(t)
        t = self.visit(t)
        # len(x) == 0 -> not x ; len(x) > 0 / len(x) != 0 -> x   (x sized: truthiness is len != 0)
        if isinstance(t, ast.Compare) and len(t.ops) == 1 and isinstance(t.left, ast.Call) and _dotted(t.left.func) == 'len' and \
                len(t.left.args) == 1 and isinstance(t.comparators[0], ast.Constant) and t.comparators[0].value == 0:
            x = t.left.args[0]
            if isinstance(t.ops[0], ast.Eq):
                self._hit()
                return ast.copy_location(ast.UnaryOp(op=ast.Not(), operand=x), t)
            if isinstance(t.ops[0], (ast.NotEq, ast.Gt)):
                self._hit()
                return x
        # (x & c) != 0 -> x & c ; bool(x) -> x
        if isinstance(t, ast.Compare) and len(t.ops) == 1 and isinstance(t.ops[0], ast.NotEq) and isinstance(t.left, ast.BinOp) and \
                isinstance(t.left.op, ast.BitAnd) and isinstance(t.comparators[0], ast.Constant) and t.comparators[0].value == 0:
            self._hit()
            return t.left
        if isinstance(t, ast.Call) and _dotted(t.func) == 'bool' and len(t.args) == 1 and not t.keywords:
            return t.args[0]
        return t

    def visit_UnaryOp_post(self, node):
        if isinstance(node.operand, ast.Compare) and len(node.operand.ops) == 1 and type(node.operand.ops[0]) in NEG:
            c = node.operand
            self._hit()
            return ast.copy_location(ast.Compare(left=c.left, ops=[NEG[type(c.ops[0])]()], comparators=c.comparators), node)
        if isinstance(node.operand, ast.UnaryOp) and isinstance(node.operand.op, ast.Not):
            return node.operand.operand
        return node

    def visit_BinOp(self, node):
        self.generic_visit(node)
        l, r = node.left, node.right
        if isinstance(l, ast.Constant) and isinstance(r, ast.Constant) and type(l.value) is int and type(r.value) is int and \
                isinstance(node.op, (ast.Add, ast.Sub, ast.Mult)):
            v = l.value + r.value if isinstance(node.op, ast.Add) else l.value - r.value if isinstance(node.op, ast.Sub) else l.value * r.value
            return ast.copy_location(ast.Constant(value=v), node)
        if isinstance(node.op, ast.Add) and isinstance(l, ast.Constant) and type(l.value) is int and l.value == 0:
            return r
        if isinstance(node.op, (ast.Add, ast.Sub)) and isinstance(r, ast.Constant) and type(r.value) is int and r.value == 0:
            return l
        if isinstance(node.op, ast.Add) and isinstance(l, ast.Constant) and isinstance(r, ast.Constant) and \
                type(l.value) is bytes and type(r.value) is bytes:
            return ast.copy_location(ast.Constant(value=l.value + r.value), node)
        return node

    def visit_Slice(self, node):
        self.generic_visit(node)
        if isinstance(node.lower, ast.Constant) and node.lower.value == 0:
            node.lower = None
        return node

    def visit_Assign(self, node):
        self.generic_visit(node)
        if len(node.targets) == 1 and isinstance(node.targets[0], ast.Name) and isinstance(node.value, ast.Name) and \
                node.targets[0].id == node.value.id:
            return None
        # x = x op y  ->  x op= y
        if len(node.targets) == 1 and isinstance(node.targets[0], ast.Name) and isinstance(node.value, ast.BinOp) and \
                isinstance(node.value.left, ast.Name) and node.value.left.id == node.targets[0].id and \
                not any(isinstance(n, ast.Name) and n.id == node.targets[0].id for n in ast.walk(node.value.right)):
            self._hit()
            return ast.copy_location(ast.AugAssign(target=node.targets[0], op=node.value.op, value=node.value.right), node)
        return node

    def visit_Call(self, node):
        self.generic_visit(node)
        if any(isinstance(x, ast.Starred) and isinstance(x.value, (ast.Tuple, ast.List)) for x in node.args):
            new = []
            for x in node.args:
                if isinstance(x, ast.Starred) and isinstance(x.value, (ast.Tuple, ast.List)):
                    new.extend(x.value.elts)        # f(*(a, b)) is f(a, b)
                else:
                    new.append(x)
            node.args = new
            self._hit()
        fn = _dotted(node.func)
        base = fn.split('.')[-1] if fn else (node.func.attr if isinstance(node.func, ast.Attribute) else None)
        # d.get(k, None) -> d.get(k)
        if base == 'get' and len(node.args) == 2 and isinstance(node.args[1], ast.Constant) and node.args[1].value is None and not node.keywords:
            node.args = node.args[:1]
            self._hit()
        # range(0, n) -> range(n)
        if fn == 'range' and len(node.args) == 2 and isinstance(node.args[0], ast.Constant) and node.args[0].value == 0:
            node.args = node.args[1:]
            self._hit()
        # filter(lambda x: c, it) -> (x for x in it if c)
        if fn == 'filter' and len(node.args) == 2 and not node.keywords and isinstance(node.args[0], ast.Lambda):
            la = node.args[0].args
            if len(la.args) == 1 and not (la.posonlyargs or la.kwonlyargs or la.vararg or la.kwarg or la.defaults):
                v = la.args[0].arg
                new = ast.GeneratorExp(elt=ast.Name(id=v, ctx=ast.Load()),
                                       generators=[ast.comprehension(target=ast.Name(id=v, ctx=ast.Store()), iter=node.args[1],
                                                                     ifs=[node.args[0].body], is_async=0)])
                self._hit()
                return _relocate(new, node)
        # super(K, self) -> super()
        if fn == 'super' and len(node.args) == 2 and self.cls is not None and isinstance(node.args[0], ast.Name) and \
                node.args[0].id == self.cls.name and isinstance(node.args[1], ast.Name) and node.args[1].id == self.first:
            node.args = []
            self._hit()
        # re.compile(P, F).fn(s) -> re.fn(P, s, flags=F)
        if isinstance(node.func, ast.Attribute) and isinstance(node.func.value, ast.Call) and _dotted(node.func.value.func) == 're.compile' and \
                node.func.attr in RE_FUNCS and len(node.args) == RE_FUNCS[node.func.attr] and not node.keywords:
            comp = node.func.value
            pat = comp.args[0] if comp.args else None
            flags = comp.args[1] if len(comp.args) > 1 else next((k.value for k in comp.keywords if k.arg == 'flags'), None)
            if pat is not None:
                new = ast.Call(func=ast.Attribute(value=ast.Name(id='re', ctx=ast.Load()), attr=node.func.attr, ctx=ast.Load()),
                               args=[pat] + node.args, keywords=[ast.keyword(arg='flags', value=flags)] if flags is not None else [])
                self._hit()
                return _relocate(new, node)
        # re.sub / re.subn: count=0 and flags=0 are the defaults (no limit, no flags); a positional flags argument becomes flags=
        if fn in ('re.sub', 're.subn') and len(node.args) >= 3:
            if len(node.args) == 5 and not any(k.arg == 'flags' for k in node.keywords):
                node.keywords = node.keywords + [ast.keyword(arg='flags', value=node.args[4])]
                node.args = node.args[:4]
                self._hit()
            if len(node.args) == 4 and isinstance(node.args[3], ast.Constant) and node.args[3].value == 0:
                node.args = node.args[:3]
                self._hit()
            kept = [k for k in node.keywords if not (k.arg in ('count', 'flags') and isinstance(k.value, ast.Constant) and k.value.value == 0)]
            if len(kept) != len(node.keywords):
                node.keywords = kept
                self._hit()
        # keyword arguments -> positional (resolvable repo callee with one signature under that name, or a known stdlib one)
        if node.keywords and base and not any(k.arg is None for k in node.keywords) and not any(isinstance(a, ast.Starred) for a in node.args):
            sig = self._signature(node, base)
            if sig is not None:
                pos = list(node.args)
                kw = {k.arg: k.value for k in node.keywords}
                ok = True
                for i in range(len(pos), len(sig)):
                    p = sig[i]
                    if p in kw:
                        pos.append(kw.pop(p))
                    else:
                        break
                if ok and len(pos) > len(node.args):
                    node.args = pos
                    node.keywords = [k for k in node.keywords if k.arg in kw]
                    self._hit()
        return node

    def _signature(self, node, base):
        if base in STD_SIGS:
            return STD_SIGS[base]
        sigs = set()
        prog = self.canon.prog
        for c in prog.all_classes():
            f = c.methods.get(base)
            if f is not None:
                a = f.node.args
                if a.vararg or a.kwarg:
                    return None
                ps = [x.arg for x in a.args]
                if not any(_dotted(d) == 'staticmethod' for d in f.node.decorator_list):
                    ps = ps[1:]
                sigs.add(tuple(ps))
        if isinstance(node.func, ast.Name):
            f = self.m.functions.get(base)
            if f is None:
                r = prog.lookup(self.m, base)
                f = r if hasattr(r, 'params') and getattr(r, 'cls', None) is None else None
                if hasattr(r, 'mro'):
                    init = r.find_method('__init__')
                    if init is not None and not init.node.args.vararg and not init.node.args.kwarg:
                        return [x.arg for x in init.node.args.args][1:]
                    return None
            if f is not None and not f.node.args.vararg and not f.node.args.kwarg:
                return [x.arg for x in f.node.args.args]
            return None
        if len(sigs) == 1:
            return list(next(iter(sigs)))
        return None


def _flat(stmts, may_be_empty=False):
    out = []
    for s in stmts:
        if isinstance(s, list):
            out.extend(s)
        elif s is not None:
            out.append(s)
    return out or ([] if may_be_empty else [ast.Pass()])


def _same_literal(a, b):
    """Two literal expressions (constants, signed constants) denoting the same value of the same type."""
    try:
        x, y = ast.literal_eval(a), ast.literal_eval(b)
    except (ValueError, SyntaxError, TypeError):
        return False
    return type(x) is type(y) and x == y


def canonicalise(prog):
    c = Canon(prog).run()
    prog.canon_stats = c.stats
    prog.canon_inlined = c.inlined
    return prog
