"""Rule families shared by several properties."""
import ast
import re

from .interp import Interp, Scenario, Sym, Const, Bytes, render
from .loader import AnalysisError, dotted

noinline = lambda f: False  # noqa: E731


def class_attr_names(ci):
    """Attribute names an instance of ci certainly has: methods, properties, and `self.x = ...` in any __init__ along the MRO."""
    names = set()
    for c in ci.mro():
        names.update(k for k in c.methods if not k.endswith('.setter'))
        names.update(c.props)
        names.update(c.plain_props)
        names.update(c.attrs)
        init = c.methods.get('__init__')
        if init is not None:
            for n in ast.walk(init.node):
                if isinstance(n, ast.Attribute) and isinstance(n.ctx, ast.Store) and isinstance(n.value, ast.Name) and \
                        n.value.id == init.params[0]:
                    names.add(n.attr)
    return names


def check_operation_wiring(rep, prog, rid):
    """One cipher_algo and one session key reach the ESK packet and the container, in both encrypt operations."""
    for cls, esk_key_index, esk_alg in (('PGPMessage', 1, None), ('PGPKey', 2, 1)):
        fi = prog.method('pgpy.pgp', cls, 'encrypt')
        rep.saw(fn=fi)
        for given in (False, True):
            args = {'sessionkey': Sym('sessionkey', nonnull=True) if given else Const(None)}
            sc = Scenario(args=args, bind={'self.is_encrypted': Const(False), 'message.is_encrypted': Const(False)}, inline=noinline)
            for s in Interp(prog, sc).run(fi):
                if s.raised:
                    continue
                esk = [c for c in s.calls if c[0].split('.')[-1] == 'encrypt_sk']
                data = [c for c in s.calls if c[0].endswith('.encrypt') and c[0].split('.')[-2:-1] == ['skedata']]
                scen = '%s.encrypt, session key %s' % (cls, 'supplied' if given else 'generated')
                if len(esk) != 1 or len(data) != 1:
                    rep.violation(rid, '%s.encrypt' % cls, '%d ESK / %d container encryptions' % (len(esk), len(data)),
                                  'expected one session-key packet and one container encryption', where=fi.where, scenario=scen)
                    continue
                k1 = esk[0][1][esk_key_index] if len(esk[0][1]) > esk_key_index else None
                k2, alg2 = (data[0][1] + [None, None])[:2]
                ok = k1 == k2 and k1 is not None
                if esk_alg is not None:
                    ok = ok and esk[0][1][esk_alg] == alg2
                else:
                    enc = [v for p, v, l, _ in s.stores if p.endswith('.s2k.encalg')]
                    ok = ok and enc == [alg2]
                rep.check(ok, rid, '%s.encrypt' % cls, '%s: ESK(key=%s) container(key=%s, cipher=%s)' % (scen, k1, k2, alg2),
                          'the session key and cipher recorded in the session-key packet must be the ones the container is encrypted with',
                          where=fi.where, scenario=scen)
                # the plaintext is the serialised message
                pt = data[0][1][2] if len(data[0][1]) > 2 else None
                want = 'self.__bytes__()' if cls == 'PGPMessage' else 'message.__bytes__()'
                rep.check(pt in (want, want.replace('__bytes__', '__bytearray__')), rid, '%s.encrypt' % cls, '%s: plaintext %s' % (scen, pt), 'the container holds the whole serialised message',
                          where=fi.where, expected=want, found=pt, scenario=scen)


def check_sessionkey_consumers(rep, prog, rid):
    """Every iteration over a `_sessionkeys` list either filters by isinstance or touches only attributes common to both packet classes."""
    pk = prog.cls('pgpy.packet.packets', 'PKESessionKeyV3')
    sk = prog.cls('pgpy.packet.packets', 'SKESessionKeyV4')
    common = class_attr_names(pk) & class_attr_names(sk)
    n = 0
    for fn in prog.all_functions():
        for node in ast.walk(fn.node):
            gens = []
            if isinstance(node, (ast.GeneratorExp, ast.ListComp, ast.SetComp, ast.DictComp)):
                for g in node.generators:
                    gens.append((g.target, g.iter, [node.elt if not isinstance(node, ast.DictComp) else node.value] + list(g.ifs), g.ifs))
            elif isinstance(node, ast.For):
                gens.append((node.target, node.iter, list(node.body), []))
            for target, it, uses, ifs in gens:
                if '_sessionkeys' not in ast.unparse(it) or not isinstance(target, ast.Name):
                    continue
                # an inner generator may already have filtered
                pre_filtered = 'isinstance' in ast.unparse(it)
                var = target.id
                n += 1
                touched = set()
                for u in uses:
                    for x in ast.walk(u):
                        if isinstance(x, ast.Attribute) and isinstance(x.value, ast.Name) and x.value.id == var:
                            touched.add(x.attr)
                specific = sorted(a for a in touched if a not in common)
                filt = pre_filtered or any(isinstance(c, ast.Call) and dotted(c.func) == 'isinstance' and c.args and
                                           isinstance(c.args[0], ast.Name) and c.args[0].id == var
                                           for i in ifs for c in ast.walk(i))
                # the isinstance test must come first in an `and` chain so that it guards the attribute reads
                first_ok = True
                for i in ifs:
                    if isinstance(i, ast.BoolOp) and isinstance(i.op, ast.And):
                        f0 = i.values[0]
                        if specific and not (isinstance(f0, ast.Call) and dotted(f0.func) == 'isinstance'):
                            first_ok = False
                rep.check(not specific or (filt and first_ok), rid, fn.qualname, 'iteration over %s touching %s' % (ast.unparse(it)[:50], specific),
                          'a message can carry public-key and passphrase session-key packets at once; class-specific fields %s are read '
                          'without an isinstance filter' % specific, where='%s:%d' % (fn.module.relpath, node.lineno),
                          expected='isinstance(%s, <class>) filter' % var, found=ast.unparse(node)[:160])
    return n


def check_pkesk_selection(rep, prog, rid):
    fi = prog.method('pgpy.pgp', 'PGPKey', 'decrypt')
    outs = Interp(prog, Scenario(bind={'message.is_encrypted': Const(True)}, inline=noinline,
                                 axioms={'(self.fingerprint.keyid not in message.encrypters)': False})).run(fi)
    for s in outs:
        dsk = [c for c in s.calls if c[0].endswith('.decrypt_sk')]
        if not dsk:
            rep.violation(rid, 'PGPKey.decrypt', 'no decrypt_sk call', 'the key never recovers a session key', where=fi.where)
            continue
        t = dsk[0][0][:-len('.decrypt_sk')]
        _m = re.search(r'EACH\((\$\d+) in message\._sessionkeys if (.*);\1\)', t)
        _v = _m.group(1) if _m else '$1'
        _c = (_m.group(2) if _m else '').replace(' ', '')
        conj = bool(_m) and all(x in _c for x in ('isinstance(%s,PKESessionKey)' % _v, '%s.pkalg==self.key_algorithm' % _v)) and \
            any(x in _c for x in ('%s.encrypter==self.fingerprint.keyid' % _v, 'self.fingerprint.keyid==%s.encrypter' % _v)) and ' or ' not in _m.group(2)
        rep.check(conj, rid, 'PGPKey.decrypt', 'session-key packet selection %s' % t[:140],
                  'with several recipients the packet used must be the one addressed to this key id (and algorithm)', where=fi.where,
                  expected='isinstance(pk, PKESessionKey) and pk.pkalg == self.key_algorithm and pk.encrypter == self.fingerprint.keyid',
                  found=t)


def check_hash_object(rep, prog, rid, construct, text, S, where, scenario=None):
    """The hash object handed to the key material must be the `cryptography` hash named like the signature's hash algorithm.
    `text` is the interpreter's value text of the argument (locals already resolved); S the text of the signature object.  The
    algorithm may be read through the PGPSignature property or the packet field it returns (C05.5 pins that getter)."""
    algs = ['%s.hash_algorithm' % S, '%s._signature.halg' % S]
    direct = ['getattr(hashes, %s.name)()' % a for a in algs]
    if text in direct:
        rep.ok(rid, construct, 'hash object %s' % text, scenario=scenario)
        return True
    m = None
    for a in algs:
        m = m or re.match(r'^%s\.([A-Za-z_][A-Za-z0-9_]*)(\(\))?$' % re.escape(a), text or '')
    if not m:
        rep.violation(rid, construct, 'hash argument %s' % text,
                      'the hash object must be built from the hash algorithm of the signature being processed', where=where,
                      expected=direct[0], found=text, scenario=scenario)
        return False
    ci = prog.cls('pgpy.constants', 'HashAlgorithm')
    g = ci.methods.get(m.group(1))
    if g is None:
        raise AnalysisError('HashAlgorithm.%s not found' % m.group(1))
    from . import tables
    ds = tables.dict_literals(g.node)
    if len(ds) != 1:
        raise AnalysisError('HashAlgorithm.%s: cannot read its lookup table' % m.group(1))
    d = next(iter(ds.values()))
    ok = True
    for k, v in zip(d.keys, d.values):
        kn = (dotted(k) or ast.unparse(k)).split('.')[-1]
        vv = v.func if isinstance(v, ast.Call) else v
        vn = (dotted(vv) or ast.unparse(vv)).split('.')[-1]
        if kn != vn:
            ok = False
            rep.violation(rid, 'HashAlgorithm.%s' % m.group(1), 'table entry %s -> %s' % (kn, vn),
                          'hash algorithm %s is mapped to the different hash function %s' % (kn, vn), where=g.where,
                          expected='%s -> hashes.%s' % (kn, kn), found='%s -> %s' % (kn, ast.unparse(v)), scenario=scenario)
    if ok:
        rep.ok(rid, construct, 'hash object via identity table HashAlgorithm.%s' % m.group(1), scenario=scenario)
    return ok


def check_cipher_tables(rep, prog, rid):
    """Symmetric cipher ids and key sizes against the RFC 4880 9.2 / RFC 5581 table (independent oracle)."""
    from . import tables
    ci = prog.cls('pgpy.constants', 'SymmetricKeyAlgorithm')
    mem = ci.enum_members()
    want_ids = {'Plaintext': 0, 'IDEA': 1, 'TripleDES': 2, 'CAST5': 3, 'Blowfish': 4, 'AES128': 7, 'AES192': 8, 'AES256': 9,
                'Twofish256': 10, 'Camellia128': 11, 'Camellia192': 12, 'Camellia256': 13}
    bad = {k: (mem.get(k), v) for k, v in want_ids.items() if mem.get(k) != v}
    rep.check(not bad, rid, 'SymmetricKeyAlgorithm', 'ids %s' % bad, 'cipher ids must be the RFC 4880 9.2 / RFC 5581 values', where=ci.where,
              found=bad)
    ks = tables.table(ci.methods['key_size'].node)
    want_ks = {'IDEA': 128, 'TripleDES': 192, 'CAST5': 128, 'Blowfish': 128, 'AES128': 128, 'AES192': 192, 'AES256': 256,
               'Twofish256': 256, 'Camellia128': 128, 'Camellia192': 192, 'Camellia256': 256}
    got = {k.split('.')[-1]: int(v) for k, v in ks.items()}
    rep.check(got == want_ks, rid, 'SymmetricKeyAlgorithm.key_size', 'key sizes %s' % {k: v for k, v in got.items() if want_ks.get(k) != v},
              'cipher key sizes must be the RFC values (a generated session key has this many bits)',
              where=ci.methods['key_size'].where, expected=want_ks, found=got)
    # the cipher class each id is bound to
    cf = ci.methods.get('cipher')
    ct = tables.table(cf.node)
    want_c = {'IDEA': 'algorithms.IDEA', 'TripleDES': 'algorithms.TripleDES', 'CAST5': 'algorithms.CAST5', 'Blowfish': 'algorithms.Blowfish',
              'AES128': 'algorithms.AES', 'AES192': 'algorithms.AES', 'AES256': 'algorithms.AES', 'Camellia128': 'algorithms.Camellia',
              'Camellia192': 'algorithms.Camellia', 'Camellia256': 'algorithms.Camellia'}
    gotc = {k.split('.')[-1]: v for k, v in ct.items() if k.split('.')[-1] in want_c}
    rep.check(gotc == want_c, rid, 'SymmetricKeyAlgorithm.cipher', 'cipher classes', 'each cipher id must be bound to its own block cipher',
              where=cf.where, expected=want_c, found=gotc)


def check_pubkey_derivation(rep, prog, rid):
    """PrivKeyV4.pubkey(): the public packet is built from public classes and from copies of the private packet's own
    public terms (created, algorithm, public fields, curve id, KDF parameters) - nothing else, nothing recomputed.

    Decided on interpreter values only: the packet is whatever object the method returns, its fields are the attribute stores /
    setattr calls whose target is rooted at that object, iterations are the bound variables of the path (State.bound) - local
    names, temporaries for `self.keymaterial` / `pk.keymaterial`, if-vs-conditional expression, merged or split algorithm tests
    and statement order do not matter."""
    from .sigdata import enum_const
    from .interp import bound_over
    fi = prog.method('pgpy.packet.packets', 'PrivKeyV4', 'pubkey')
    rep.saw(fn=fi)
    where = fi.where
    SRC = 'self.keymaterial'
    PUBF = SRC + '.__pubfields__'
    secret_words = ('__privfields__', '__mpis__', 's2k', 'encbytes', 'chksum', '__privkey__')
    ctors = ('PubKeyV4', 'PubSubKeyV4', 'PrivKeyV4', 'PrivSubKeyV4', 'PubKey', 'PrivKey')

    def iterations(s, scen):
        # every summarised loop / comprehension of the path ranges over the public field names of the private material
        for var, coll in sorted(s.bound.items()):
            rep.check(coll == PUBF, rid, 'PrivKeyV4.pubkey', 'loop over %s' % coll,
                      'only the public field names may be copied into the public packet', where=where,
                      expected='iteration over %s' % PUBF, found=coll, scenario=scen)

    # all branches at once (algorithm unknown): no iteration anywhere in the method ranges over anything else
    for s in Interp(prog, Scenario(inline=noinline, join_unknown=True)).run(fi):
        iterations(s, 'any algorithm')
    for alg, extra in (('RSAEncryptOrSign', {}), ('DSA', {}), ('ECDSA', {'oid': (SRC + '.oid',)}), ('EdDSA', {'oid': (SRC + '.oid',)}),
                       ('ECDH', {'oid': (SRC + '.oid',), 'kdf': ('copy.copy(%s.kdf)' % SRC, SRC + '.kdf')})):
        sc = Scenario(inline=noinline, bind={'self.pkalg': enum_const(prog, 'PubKeyAlgorithm', alg)})
        outs = Interp(prog, sc).run(fi)
        if not any(not s.raised for s in outs):
            raise AnalysisError('PrivKeyV4.pubkey never returns for %s' % alg)
        for s in outs:
            if s.raised:
                continue
            ctor = [c[0] for c in s.calls if c[0] in ctors]
            rep.check(bool(ctor) and set(ctor) <= {'PubKeyV4', 'PubSubKeyV4'}, rid, 'PrivKeyV4.pubkey', '%s: constructs %s' % (alg, sorted(set(ctor))),
                      'the public twin must be a public-key packet class', where=where, scenario=alg)
            iterations(s, alg)
            pk = render(s.ret)                       # the returned object, whatever the local is called
            fieldvars = bound_over(s, PUBF)          # canonical names of the variables ranging over the public field names
            got = {}
            for p, v, l, _ in s.stores:
                if p.startswith(pk + '.'):
                    got.setdefault(p[len(pk) + 1:], []).append(v)
            copied = []
            for c in s.calls:
                if c[0] == 'setattr' and len(c[1]) == 3 and c[1][0] == pk + '.keymaterial':
                    name, val = c[1][1], c[1][2]
                    okv = name in fieldvars and val in ('copy.copy(getattr(%s, %s))' % (SRC, name), 'getattr(%s, %s)' % (SRC, name))
                    copied.append(okv)
                    rep.check(okv, rid, 'PrivKeyV4.pubkey', '%s: public field <%s> = %s' % (alg, name, val),
                              'each public field of the twin must be a copy of the private packet\'s own field of the same name',
                              where=where, expected='setattr(pk.keymaterial, f, copy.copy(getattr(%s, f))) for f in %s' % (SRC, PUBF),
                              found='%s = %s' % (name, val), scenario=alg)
                    rep.check(not any(w in val or w in name for w in secret_words), rid, 'PrivKeyV4.pubkey', '%s: secret in field copy %s = %s' % (alg, name, val),
                              'nothing but the public terms may be put into the public packet', where=where, scenario=alg)
            rep.check(any(copied), rid, 'PrivKeyV4.pubkey', '%s: public fields copied: %d site(s)' % (alg, len(copied)),
                      'the public fields of the key material must be copied into the twin', where=where,
                      expected='setattr(pk.keymaterial, f, copy.copy(getattr(%s, f))) for f in %s' % (SRC, PUBF), found=None if not copied else copied, scenario=alg)
            want = {'created': ('self.created',), 'pkalg': ('PubKeyAlgorithm.%s' % alg, 'self.pkalg')}
            for k, v in extra.items():
                want['keymaterial.%s' % k] = v
            for k, vals in want.items():
                g = got.get(k) or [None]
                rep.check(all(x in vals for x in g), rid, 'PrivKeyV4.pubkey', '%s: public %s = %s' % (alg, k, g[0] if len(g) == 1 else g),
                          'the public twin\'s %s must be a copy of the private packet\'s own value (same fingerprint, same behaviour)' % k,
                          where=where, expected=vals[0], found=g[0] if len(g) == 1 else g, scenario=alg)
            for k, vs in got.items():
                for v in vs:
                    rep.check(k in want and not any(w in v for w in secret_words), rid, 'PrivKeyV4.pubkey', '%s: extra/secret store %s = %s' % (alg, k, v),
                              'nothing but the public terms may be put into the public packet', where=where, scenario=alg)
            rep.check(any(c[0] == pk + '.update_hlen' for c in s.calls), rid, 'PrivKeyV4.pubkey', '%s: update_hlen' % alg,
                      'the public packet length must be recomputed', where=where, scenario=alg)


KEY_FIELDS = ('created', 'pkalg', 'keymaterial')


def _strip_copy(t):
    m = re.match(r'^copy\.(?:copy|deepcopy)\((.+)\)$', t or '')
    return m.group(1) if m else t


def check_key_packet_rebuilds(rep, prog, rid):
    """Every place that builds a V4 key packet out of another one (PrivKeyV4.pubkey, PubKeyV4.__copy__, the sub-key conversion in
    PGPKey.add_subkey, any other `XKeyV4()` followed by field copies) takes creation time, algorithm and key material from ONE
    source packet: the fields that enter the fingerprint hash travel together.

    Sites are located by what they do (a function that constructs a class of the PubKeyV4 family, or `self.__class__()` inside
    that family) and decided on interpreter store / setattr values: the rebuilt object is the base of the stores, the source is
    the root of the stored values - local names, temporaries and statement order do not matter."""
    fam = set(c.name for c in prog.all_classes() if any(getattr(b, 'name', None) == 'PubKeyV4' for b in c.mro()))
    if not fam:
        raise AnalysisError('PubKeyV4 family vanished')
    sites = 0
    for fn in prog.all_functions():
        self0 = fn.params[0] if (fn.cls is not None and fn.params) else None
        ctor = False
        for n in ast.walk(fn.node):
            if isinstance(n, ast.Call):
                d = dotted(n.func) or ''
                if d.split('.')[-1] in fam and getattr(prog.lookup(fn.module, d.split('.')[-1]), 'name', None) in fam:
                    ctor = True
                elif self0 is not None and fn.cls.name in fam and d in ('%s.__class__' % self0, 'type(%s)' % self0):
                    ctor = True
                elif self0 is not None and fn.cls.name in fam and isinstance(n.func, ast.Call) and dotted(n.func.func) == 'type':
                    ctor = True
        if not ctor:
            continue
        outs = Interp(prog, Scenario(inline=noinline, join_unknown=True)).run(fn)
        for s in outs:
            if s.raised:
                continue
            # objects that receive fingerprint fields on this path: base text -> {field: [(value text, stored sub-path)]}
            objs = {}
            for p, v, l, _ in s.stores:
                parts = p.split('.')
                for i, a in enumerate(parts):
                    if a in KEY_FIELDS and i > 0:
                        base = '.'.join(parts[:i])
                        objs.setdefault(base, {}).setdefault(a, []).append((v, '.'.join(parts[i:])))
                        break
            for c in s.calls:
                if c[0] == 'setattr' and len(c[1]) == 3 and c[1][0].endswith('.keymaterial'):
                    base = c[1][0][:-len('.keymaterial')]
                    m = re.match(r'^getattr\((.+), (.+)\)$', _strip_copy(c[1][2]))
                    val = '%s.<%s>' % (m.group(1), m.group(2)) if m else c[1][2]
                    objs.setdefault(base, {}).setdefault('keymaterial', []).append((val, 'keymaterial.<%s>' % c[1][1]))
            for base, got in sorted(objs.items()):
                if base == self0:
                    continue                      # an object setting its own fields (__init__, parse, setters) is not a rebuild
                srcs = {}
                for a, vals in got.items():
                    for v, sub in vals:
                        v = _strip_copy(v)
                        src = v[:-len('.' + sub)] if v.endswith('.' + sub) else None
                        srcs.setdefault(a, []).append((src, v))
                roots = sorted(set(src for a in srcs for src, v in srcs[a] if src is not None))
                if not roots:
                    continue                      # fields given by the caller (PrivKeyV4.new): a new key, not a rebuilt one
                sites += 1
                odd = ['%s <- %s' % (a, v) for a in sorted(srcs) for src, v in srcs[a] if src is None or src != roots[0]]
                missing = [a for a in KEY_FIELDS if a not in srcs]
                rep.check(len(roots) == 1 and not odd and not missing, rid, fn.qualname,
                          'key packet %s rebuilt from %s%s%s' % (base, roots, '; other: %s' % odd if odd else '', '; not copied: %s' % missing if missing else ''),
                          'a key packet rebuilt from another must take creation time, algorithm and key material from that one packet '
                          '(they enter the fingerprint together)', where=fn.where,
                          expected='%s.created / .pkalg / .keymaterial <- one source packet' % base,
                          found={a: [v for _, v in srcs[a]] for a in sorted(srcs)},
                          detail='key packet %s: created / pkalg / keymaterial all from %s' % (base, roots[0]))
    return sites


def _serialised_attrs(prog, K):
    """Instance attributes of K whose values decide the octets K serialises to (read off the interpreted serialiser: return
    terms and branch conditions), or None if K has no serialiser."""
    fi = K.find_method('__bytearray__') or K.find_method('to_mpibytes')
    if fi is None:
        return None
    first = fi.params[0]
    names = set()
    for s in Interp(prog, Scenario(self_cls=K)).run(fi):
        texts = [f[0] for f in s.facts]
        if not s.raised:
            texts.append(render(s.ret))
        for t in texts:
            names.update(re.findall(r'(?<![\w.])%s\.([A-Za-z_]\w*)' % re.escape(first), t))
    out = set()
    for a in names:
        if a.startswith('__') or K.find_method(a) is not None and K.find_prop(a) is None and K.find_plain_prop(a) is None:
            continue
        out.add(a)
    return out


def _mpis_names(prog, K, after=None):
    """Names K().__mpis__ yields (class-level tuple, or a generator property chaining super().__mpis__), else None."""
    mro = K.mro()
    if after is not None:
        mro = mro[mro.index(after) + 1:]
    for c in mro:
        if '__mpis__' in c.attrs:
            try:
                return list(ast.literal_eval(c.attrs['__mpis__']))
            except ValueError:
                return None
        getter = (c.plain_props.get('__mpis__') or {}).get('get')
        if getter is None:
            continue
        names = []
        outs = Interp(prog, Scenario(self_cls=K, inline=noinline)).run(getter)
        if len(outs) != 1:
            return None
        for y in outs[0].yields:
            t = render(y)
            m = re.match(r"^'(\w+)'$", t)
            if m:
                names.append(m.group(1))
            elif re.match(r'^EACH\((\$[\d.]+) in super\(\)\.__mpis__;\1\)$', t):
                sup = _mpis_names(prog, K, after=c)
                if sup is None:
                    return None
                names.extend(sup)
            else:
                return None
        return names
    return None


def check_copy_carries_serialised(rep, prog, rid):
    """The octets of the public key material enter the fingerprint, so a copy must serialise to the same octets: `__copy__` of
    every key-material class and of every field class its serialised attributes hold (ECPoint, ...) carries each attribute
    the serialiser reads over from the source object - it is not recomputed from the value, defaulted or normalised.

    Decided on interpreter values: the attributes read are those occurring in the interpreted serialiser's terms and branch
    conditions; the copy is the object `__copy__` returns, with its stores / setattr calls (super().__copy__ chains inlined)."""
    from . import tables
    f, tbl = tables.keymaterial_table(prog)
    fields = prog.module('pgpy.packet.fields')
    todo, seen = [], set()
    for (pub, a), cn in sorted(tbl.items(), key=lambda kv: (not kv[0][0], kv[1])):
        K = fields.classes.get(cn)
        if K is None:
            raise AnalysisError('key material class %s not found' % cn)
        if K.name not in seen:
            seen.add(K.name)
            sib = fields.classes.get(tbl.get((True, a))) if not pub else K
            todo.append((K, sib, 'key material'))
    n = 0
    while todo:
        K, reads_of, what = todo.pop(0)
        R = _serialised_attrs(prog, reads_of if reads_of is not None else K)
        if R is None:
            continue
        # field classes held in the serialised attributes (self.p = ECPoint(..)) are copied attribute-wise by the same chain
        for c in K.mro():
            for m in c.methods.values():
                p0 = m.params[0] if m.params else None
                for x in ast.walk(m.node):
                    if isinstance(x, ast.Assign) and isinstance(x.value, ast.Call) and len(x.targets) == 1 and \
                            isinstance(x.targets[0], ast.Attribute) and isinstance(x.targets[0].value, ast.Name) and \
                            x.targets[0].value.id == p0 and x.targets[0].attr in R:
                        fc = prog.resolve_class_expr(m.module, x.value.func)
                        if fc is not None and fc.name not in seen:
                            seen.add(fc.name)
                            todo.append((fc, None, 'field of %s.%s' % (K.name, x.targets[0].attr)))
        cp = K.find_method('__copy__')
        if cp is None:
            rep.ok(rid, '%s.__copy__' % K.name, 'no __copy__: the default shallow copy carries every attribute (%s)' % what)
            n += 1
            continue
        kmro = K.mro()
        pol = lambda fi, kmro=kmro: fi.cls is not None and fi.cls in kmro and fi.name not in ('__bytearray__', 'to_mpibytes', '__len__', '__init__')  # noqa: E731
        first = cp.params[0]
        outs = [s for s in Interp(prog, Scenario(self_cls=K, inline=pol, max_depth=4)).run(cp) if not s.raised]
        if not outs:
            raise AnalysisError('%s.__copy__ never returns' % K.name)
        mpis = None
        for s in outs:
            X = render(s.ret)
            carried = {}
            for p, v, l, _ in s.stores:
                if p.startswith(X + '.') and '.' not in p[len(X) + 1:]:
                    carried[p[len(X) + 1:]] = v
            for c in s.calls:
                if c[0] == 'setattr' and len(c[1]) == 3 and c[1][0] == X:
                    name, val = c[1][1], c[1][2]
                    m = re.match(r"^'(\w+)'$", name)
                    if m:
                        carried[m.group(1)] = val
                    elif s.bound.get(name) == first + '.__mpis__' and _strip_copy(val) == 'getattr(%s, %s)' % (first, name):
                        if mpis is None:
                            mpis = _mpis_names(prog, K) or []
                        for a in mpis:
                            carried.setdefault(a, '%s.%s' % (first, a))
            bad = sorted(a for a in R if _strip_copy(carried.get(a)) != '%s.%s' % (first, a))
            n += 1
            rep.check(not bad, rid, '%s.__copy__' % K.name,
                      'copy carries %s%s' % (sorted(R), '; NOT carried from the source: %s' % ['%s = %s' % (a, carried.get(a)) for a in bad] if bad else ''),
                      'a copy must serialise to the same octets as its source (%s enters the fingerprint): every attribute the serialiser reads '
                      'must be carried over from the source object, not recomputed or defaulted' % what, where=cp.where,
                      expected={a: '%s.%s' % (first, a) for a in sorted(R)}, found={a: carried.get(a) for a in sorted(R)},
                      detail='copy carries every serialised attribute %s from the source (%s)' % (sorted(R), what))
    return n


def _bind_call(fi, call):
    """{parameter name: argument text} of a recorded call (func_text, [args], {kw}, ...) to the function `fi`: positional and
    keyword spellings of the same call give the same binding."""
    params = list(fi.params)
    if fi.cls is not None and not any(dotted(d) == 'staticmethod' for d in fi.node.decorator_list):
        params = params[1:]
    b = dict(zip(params, call[1]))
    b.update(call[2])
    if '**' in b or '*' in b or any(a.startswith('*') for a in call[1]):
        # f(*seq) / f(**mapping): which slot a value reaches is not modelled - never guess
        raise AnalysisError('call of %s at line %s passes */** arguments: argument binding not modelled' % (fi.qualname, call[3]))
    return b


def hex_decoded(text):
    """X if `text` denotes the octets whose hexadecimal spelling is the str X (the idioms are equivalent on hex digits), else None."""
    m = re.match(r'^(?:binascii\.)?(?:unhexlify|a2b_hex)\((.+)\)$', text or '')
    if m:
        inner = m.group(1)
        m2 = re.match(r"^(.+)\.encode\((?:'(?:latin-1|latin1|iso-8859-1|ascii|us-ascii|utf-8|utf8)')?\)$", inner)
        return m2.group(1) if m2 else inner
    m = re.match(r'^(?:bytes|bytearray)\.fromhex\((.+)\)$', text or '')
    return m.group(1) if m else None


def check_ids_rooted_at_self(rep, prog, rid):
    """Issuer key id, issuer fingerprint, recipient key id and the key material used all come from the method's own `self`.

    Decided on interpreter call / store events (values, not source text): what matters is the value that reaches the issuer /
    `_issuer_fpr` / encrypter / algorithm slot on every path that writes it, and the receiver of the signing / session-key call.
    Temporaries, keyword-vs-positional arguments, merged or nested conditions and statement order do not matter."""
    K = 'pgpy.pgp'
    KEYID, FPR, ALG, MAT = 'self.fingerprint.keyid', 'self.fingerprint', 'self.key_algorithm', 'self._key'
    nf = prog.method(K, 'PGPSignature', 'new')
    np_ = [p for p in nf.params[1:]]          # (sigtype, pkalg, halg, signer, created) whatever they are called
    if len(np_) < 4:
        raise AnalysisError('PGPSignature.new: signature changed (%s)' % nf.params)
    P_TYPE, P_ALG, P_SIGNER = np_[0], np_[1], np_[3]
    kcls = prog.cls(K, 'PGPKey')
    addnew = prog.cls('pgpy.packet.fields', 'SubPackets').find_method('addnew')
    if addnew is None:
        raise AnalysisError('SubPackets.addnew vanished')
    a_params = addnew.params[1:]

    def is_new_site(n):
        return isinstance(n, ast.Call) and (dotted(n.func) or '').split('.')[-2:] == ['PGPSignature', 'new']

    # ---- issuer key id and algorithm at every place a new signature is started
    meths = ['sign', 'certify', 'revoke', 'revoker', 'bind']
    meths += sorted(m for m, f in kcls.methods.items() if m not in meths and any(is_new_site(n) for n in ast.walk(f.node)))
    for meth in meths:
        f = prog.method(K, 'PGPKey', meth)
        rep.saw(fn=f)
        outs = Interp(prog, Scenario(inline=noinline, join_unknown=True)).run(f)
        seen = {}
        for s in outs:
            for c in s.calls:
                if c[0] == 'PGPSignature.new':
                    b = _bind_call(nf, c)
                    seen.setdefault((c[3], b.get(P_ALG), b.get(P_SIGNER)), c)
        reached = set(id(c[4]) for c in seen.values())
        for n in ast.walk(f.node):
            if is_new_site(n) and id(n) not in reached:
                raise AnalysisError('PGPKey.%s: PGPSignature.new at line %d is not reached by the interpreter' % (meth, n.lineno))
        if not seen and meth in ('sign', 'certify', 'revoke', 'revoker', 'bind'):
            raise AnalysisError('PGPKey.%s no longer starts a signature with PGPSignature.new' % meth)
        for (line, alg, signer), c in sorted(seen.items(), key=lambda kv: kv[0][0]):
            rep.check(alg == ALG and signer == KEYID, rid, 'PGPKey.%s' % meth,
                      'PGPSignature.new(%s=%s, %s=%s)' % (P_ALG, alg, P_SIGNER, signer), 'the issuer id and algorithm written must be those of the key that signs (self)',
                      where='%s:%d' % (f.module.relpath, line), expected='(.., %s, .., %s)' % (ALG, KEYID), found=[alg, signer])
    # ---- PGPSignature.new records what it is given
    rep.saw(fn=nf)
    n_ok = 0
    for s in Interp(prog, Scenario(inline=noinline)).run(nf):
        if s.raised:
            continue
        n_ok += 1
        wrapper = render(s.ret)
        pkts = [v for p, v, l, _ in s.stores if p == wrapper + '._signature']
        pkt = pkts[-1] if pkts else None
        st = {}
        for p, v, l, _ in s.stores:
            st.setdefault(p, []).append(v)
        issuer = [_bind_call(addnew, c) for c in s.calls if pkt is not None and c[0] == pkt + '.subpackets.addnew' and
                  (c[1][0] if c[1] else c[2].get(a_params[0])) == "'Issuer'"]
        ok = pkt is not None and st.get(pkt + '.pubalg') == [P_ALG] and st.get(pkt + '.sigtype') == [P_TYPE] and \
            len(issuer) == 1 and issuer[0].get('_issuer') == P_SIGNER
        rep.check(ok, rid, 'PGPSignature.new', 'issuer/pubalg/sigtype stored', 'the new signature records the given issuer id, algorithm and type',
                  where=nf.where, expected='packet.pubalg = %s, packet.sigtype = %s, Issuer subpacket _issuer = %s' % (P_ALG, P_TYPE, P_SIGNER),
                  found='packet %s: pubalg %s, sigtype %s, Issuer %s' % (pkt, st.get('%s.pubalg' % pkt), st.get('%s.sigtype' % pkt),
                                                                          issuer))
    if not n_ok:
        raise AnalysisError('PGPSignature.new never returns')
    # ---- _sign: issuer fingerprint and key material
    f = prog.method(K, 'PGPKey', '_sign')
    rep.saw(fn=f)
    fpr, signs, sinks = {}, {}, {}
    returning = 0
    for s in Interp(prog, Scenario(inline=noinline, join_unknown=True)).run(f):
        returning += 0 if s.raised else 1
        for c in s.calls:
            last = c[0].split('.')[-1]
            if last == 'addnew':
                if (c[1][0] if c[1] else c[2].get(a_params[0])) == "'IssuerFingerprint'":
                    b = _bind_call(addnew, c)
                    fpr.setdefault((c[3], b.get('_issuer_fpr'), b.get('_version'), b.get(a_params[1]) if len(a_params) > 1 else None), c)
            elif last == 'sign' and c[0].endswith('._key.sign'):
                signs.setdefault((c[3], c[0]), c)
            elif last == 'from_signer':
                sinks.setdefault((c[3], (c[1] + [None])[0]), c)
    if not returning:
        raise AnalysisError('PGPKey._sign never returns')
    rep.check(len(fpr) >= 1, rid, 'PGPKey._sign', 'IssuerFingerprint sites %d' % len(fpr), 'expected an issuer-fingerprint subpacket', where=f.where)
    for (line, val, ver, hashed), c in sorted(fpr.items(), key=lambda kv: kv[0][0]):
        rep.check(val == FPR and ver == '4' and hashed == 'True', rid, 'PGPKey._sign',
                  'IssuerFingerprint(_issuer_fpr=%s, _version=%s, hashed=%s)' % (val, ver, hashed),
                  'the issuer fingerprint written must be the fingerprint of the key that signs (self)',
                  where='%s:%d' % (f.module.relpath, line), expected='_issuer_fpr=%s' % FPR, found={'_issuer_fpr': val, '_version': ver, 'hashed': hashed})
    recv = sorted(set(k[1] for k in signs))
    rep.check(recv == [MAT + '.sign'], rid, 'PGPKey._sign', 'signing call %s' % recv,
              'the signature must be made with the key material of self', where=f.where, expected=MAT + '.sign', found=recv)
    made = sorted(set(str(k[1]) for k in sinks))
    rep.check(bool(made) and all(m.startswith(MAT + '.sign(') for m in made), rid, 'PGPKey._sign', 'signature octets stored: %s' % [m[:40] for m in made],
              'the signature stored in the packet must be the one made with the key material of self', where=f.where,
              expected='from_signer(%s.sign(..))' % MAT, found=made)
    # ---- encrypt: recipient id and key material
    f = prog.method(K, 'PGPKey', 'encrypt')
    rep.saw(fn=f)
    outs = Interp(prog, Scenario(inline=noinline, join_unknown=True, bind={'message.is_encrypted': Const(False)})).run(f)
    n_ok = 0
    for s in outs:
        if s.raised:
            continue
        n_ok += 1
        # the session-key packet is the object whose recipient id is written (whatever the local is called)
        pk = sorted(set(p[:-len('.encrypter')] for p, v, l, _ in s.stores if p.endswith('.encrypter')))
        enc = [v for p, v, l, _ in s.stores if p.endswith('.encrypter')]
        alg = [v for p, v, l, _ in s.stores if len(pk) == 1 and p == pk[0] + '.pkalg']
        esk = [c for c in s.calls if c[0].split('.')[-1] == 'encrypt_sk']
        rep.check(len(pk) == 1 and bool(enc) and all(hex_decoded(v) == KEYID for v in enc) and alg == [ALG], rid, 'PGPKey.encrypt',
                  'recipient id %s alg %s' % (enc, alg), 'the recipient key id and algorithm written must be those of the key that encrypts (self)',
                  where=f.where, expected='unhexlify(%s), %s' % (KEYID, ALG), found='%s / %s' % (enc, alg))
        rep.check(len(esk) == 1 and len(pk) == 1 and esk[0][0] == pk[0] + '.encrypt_sk' and esk[0][1][:1] == [MAT], rid, 'PGPKey.encrypt',
                  'encrypt_sk(%s...)' % (esk[0][1][:1] if esk else None),
                  'the session key must be encrypted to the key material of self', where=f.where)
    if not n_ok:
        raise AnalysisError('PGPKey.encrypt never returns')


RFC_HASH_IDS = {'MD5': 1, 'SHA1': 2, 'RIPEMD160': 3, 'SHA256': 8, 'SHA384': 9, 'SHA512': 10, 'SHA224': 11}
RFC_PK_IDS = {'RSAEncryptOrSign': 1, 'RSAEncrypt': 2, 'RSASign': 3, 'ElGamal': 16, 'DSA': 17, 'ECDH': 18, 'ECDSA': 19,
              'FormerlyElGamalEncryptOrSign': 20, 'DiffieHellman': 21, 'EdDSA': 22}


def check_algorithm_ids(rep, prog, rid):
    """Hash and public-key algorithm ids against RFC 4880 9.1 / 9.4, RFC 6637 5 and the EdDSA draft (independent oracle): these
    octets are hashed in every signature trailer and written into every key, signature and session-key packet."""
    for cname, table, what in (('HashAlgorithm', RFC_HASH_IDS, 'hash'), ('PubKeyAlgorithm', RFC_PK_IDS, 'public-key')):
        ci = prog.cls('pgpy.constants', cname)
        mem = ci.enum_members()
        bad = {k: (mem.get(k), v) for k, v in table.items() if mem.get(k) != v}
        rep.check(not bad, rid, cname, 'ids %s' % (bad or 'all RFC values'), '%s algorithm ids must be the RFC values' % what, where=ci.where,
                  expected={k: v for k, v in table.items() if k in bad}, found={k: v[0] for k, v in bad.items()})
    h = prog.cls('pgpy.constants', 'HashAlgorithm')
    f = h.methods.get('hasher')
    for s in Interp(prog, Scenario(inline=noinline)).run(f):
        rep.check(render(s.ret) in ('hashlib.new(self.name)', 'HASHER(self.name;)'), rid, 'HashAlgorithm.hasher', render(s.ret),
                  'the hasher is a fresh hashlib object of the algorithm\'s own name', where=f.where)
