"""Rule families shared by several properties."""
import ast
import re

from .interp import Interp, Scenario, Sym, Const, Bytes, render
from .loader import AnalysisError, dotted

noinline = lambda f: False  # noqa: E731


def class_attr_names(ci):
    """Attribute names an instance of ci certainly has: methods, properties, and `self.x = ...` in any __init__ along the MRO."""
    names = set()
    for c in ci.mro():
        names.update(k for k in c.methods if not k.endswith('.setter'))
        names.update(c.props)
        names.update(c.plain_props)
        names.update(c.attrs)
        init = c.methods.get('__init__')
        if init is not None:
            for n in ast.walk(init.node):
                if isinstance(n, ast.Attribute) and isinstance(n.ctx, ast.Store) and isinstance(n.value, ast.Name) and \
                        n.value.id == init.params[0]:
                    names.add(n.attr)
    return names


ENCRYPT_OPS = {  # class -> (roles of the positional parameters, ESK packet class, -, position of the cipher in encrypt_sk (None: s2k), plaintext)
    'PGPMessage': (('self', 'passphrase', 'sessionkey'), 'SKESessionKey', 1, None, 'self'),
    'PGPKey': (('self', 'message', 'sessionkey'), 'PKESessionKey', 2, 1, 'message'),
}


def encrypt_operation_paths(prog, cls, given, already=False):
    """The returning paths of <cls>.encrypt on a not yet encrypted message, with the session-key packet call, the container call
    and what reaches them.  Parameters are bound by position, the packets are recognised by their CLASS (not by the local that holds
    them): -> (fi, [dict(state, esk, data, esk_key, esk_alg, data_key, data_alg, plaintext, esk_obj)])."""
    from . import taint
    roles, esk_cls, ki, ai, subject = ENCRYPT_OPS[cls]
    fi = prog.method('pgpy.pgp', cls, 'encrypt')
    args = {'sessionkey': Sym('sessionkey', nonnull=True) if given else Const(None)}
    outs = taint.run_roles(prog, fi, roles, kwarg='prefs', args=args,
                           bind={'self.is_encrypted': Const(already), 'message.is_encrypted': Const(already)})
    res = []
    for s in outs:
        if s.raised:
            continue
        esk = [c for c in s.calls if c[0].endswith('.encrypt_sk') and taint.obj_of_class(s, c[0][:-len('.encrypt_sk')], esk_cls)]
        data = [c for c in s.calls if c[0].endswith('.encrypt') and taint.obj_of_class(s, c[0][:-len('.encrypt')], 'IntegrityProtectedSKEData', 'SKEData')]
        d = {'state': s, 'esk': esk, 'data': data, 'subject': subject}
        if len(esk) == 1:
            d['esk_obj'] = esk[0][0][:-len('.encrypt_sk')]
        if len(esk) == 1 and len(data) == 1:
            d['esk_obj'] = esk[0][0][:-len('.encrypt_sk')]
            ocls = taint.objects(s)[d['esk_obj']].cls
            ea = taint.bind_call(esk[0], ocls.find_method('encrypt_sk').params[1:])
            dcls = taint.objects(s)[data[0][0][:-len('.encrypt')]].cls
            da = taint.bind_call(data[0], dcls.find_method('encrypt').params[1:])
            eroles = ('passphrase', 'sk') if ai is None else ('pk', 'symalg', 'symkey')
            ea = dict(zip(eroles, [ea.get(p) for p in ocls.find_method('encrypt_sk').params[1:]]))
            da = dict(zip(('key', 'alg', 'data'), [da.get(p) for p in dcls.find_method('encrypt').params[1:]]))
            d['esk_key'] = ea.get('sk' if ai is None else 'symkey')
            if ai is not None:
                d['esk_alg'] = [ea.get('symalg')]
            else:
                d['esk_alg'] = [v for p, v, l, _ in s.stores if p == d['esk_obj'] + '.s2k.encalg']
            d['data_key'], d['data_alg'], d['plaintext'] = da.get('key'), da.get('alg'), da.get('data')
        res.append(d)
    return fi, res


def check_operation_wiring(rep, prog, rid):
    """One cipher_algo and one session key reach the ESK packet and the container, in both encrypt operations."""
    from . import taint
    for cls in ('PGPMessage', 'PGPKey'):
        for given in (False, True):
            fi, paths = encrypt_operation_paths(prog, cls, given)
            rep.saw(fn=fi)
            scen = '%s.encrypt, session key %s' % (cls, 'supplied' if given else 'generated')
            if not paths:
                raise AnalysisError('%s.encrypt: no returning path for a message that is not yet encrypted' % cls)
            for d in paths:
                if len(d['esk']) != 1 or len(d['data']) != 1:
                    rep.violation(rid, '%s.encrypt' % cls, '%d ESK / %d container encryptions' % (len(d['esk']), len(d['data'])),
                                  'expected one session-key packet and one container encryption', where=fi.where, scenario=scen)
                    continue
                k1, k2, alg2 = d['esk_key'], d['data_key'], d['data_alg']
                ok = k1 == k2 and k1 is not None and d['esk_alg'] == [alg2]
                rep.check(_callers_cipher(alg2), rid, '%s.encrypt' % cls, '%s: cipher %s' % (scen, alg2),
                          'the cipher of the operation is the caller\'s `cipher` preference (with a default), decided once: it sizes the session '
                          'key and is written into every session-key packet - it is never re-chosen afterwards', where=fi.where, scenario=scen,
                          expected="prefs.pop('cipher', <default>)", found=alg2)
                rep.check(ok, rid, '%s.encrypt' % cls, '%s: ESK(key=%s) container(key=%s, cipher=%s)' % (scen, k1, k2, alg2),
                          'the session key and cipher recorded in the session-key packet must be the ones the container is encrypted with',
                          where=fi.where, scenario=scen)
                # the result carries the session-key packet and the container, and not the plaintext message itself
                st = d['state']
                ret = render(st.ret) if st.ret is not None else ''
                data_obj = d['data'][0][0][:-len('.encrypt')]
                parts = _or_parts(ret)
                fresh = [x for x in parts if re.match(r'^(PGPMessage\(\)|<PGPMessage(#\d+)?>)$', x)]
                ok = sorted(x for x in parts if x not in fresh) == sorted([d['esk_obj'], data_obj]) and len(fresh) == 1
                rep.check(ok, rid, '%s.encrypt' % cls, '%s: returns %s' % (scen, ret[:120]),
                          'the encrypted message returned must consist of the session-key packet and the encrypted container (not the plaintext)',
                          where=fi.where, expected='<message> | %s | %s' % (d['esk_obj'], data_obj), found=ret, scenario=scen)
                # the plaintext is the serialised message
                pt = d['plaintext']
                want = '%s.__bytes__()' % d['subject']
                rep.check(pt in (want, want.replace('__bytes__', '__bytearray__'), d['subject']), rid, '%s.encrypt' % cls, '%s: plaintext %s' % (scen, pt),
                          'the container holds the whole serialised message', where=fi.where, expected=want, found=pt, scenario=scen)


def _callers_cipher(text):
    """Is the value the caller's `cipher` preference taken (once) from the keyword preferences, with some default?"""
    from . import taint
    c = taint.split_args(text or '')
    return c is not None and c[0] in ('prefs.pop', 'prefs.get') and len(c[1]) in (1, 2) and c[1][0] == "'cipher'"


def check_encrypters_current(rep, prog, rid):
    """PGPMessage.encrypters is what PGPKey.decrypt consults to find out whether a message is addressed to a key: on every read it must
    be a function of the CURRENT session-key packets.  Either every returning path computes it from self._sessionkeys, or - if a stored
    value is handed back - every statement of the class that changes a _sessionkeys list resets that store next to the change."""
    from . import taint
    ci = prog.cls('pgpy.pgp', 'PGPMessage')
    pp = ci.find_plain_prop('encrypters')
    g = pp.get('get') if pp else None
    if g is None:
        raise AnalysisError('PGPMessage.encrypters vanished')
    rep.saw(fn=g)
    cached = set()
    for s in taint.run_roles(prog, g, ('self',)):
        if s.raised or s.ret is None:
            continue
        r = render(s.ret)
        if 'self._sessionkeys' not in r:
            # handed back from the object's own state rather than computed here (a local accumulator filled by a loop is computed here)
            cached |= set(a for a in re.findall(r'(?<![A-Za-z0-9_.])self\.([A-Za-z_][A-Za-z0-9_]*)', r) if a != '_sessionkeys')
    if not cached:
        rep.ok(rid, 'PGPMessage.encrypters', 'computed from the current session-key packets on every read')
        return
    if not all(re.match(r'^[A-Za-z_][A-Za-z0-9_]*$', c) for c in cached):
        rep.violation(rid, 'PGPMessage.encrypters', 'returns %s' % sorted(cached), 'the recipient set handed back is not derived from the session-key '
                      'packets the message holds now', where=g.where, found=sorted(cached))
        return
    MUT = ('append', 'extend', 'insert', 'remove', 'pop', 'clear', 'sort', 'reverse')
    for f in ci.methods.values():
        if f.name == '__init__':
            continue
        def scan(stmts):
            resets = set()
            muts = []
            for st in stmts:
                for n in ast.walk(st) if not isinstance(st, (ast.If, ast.For, ast.While, ast.Try, ast.With)) else []:
                    if isinstance(n, ast.Attribute) and n.attr in cached and isinstance(n.ctx, (ast.Store, ast.Del)):
                        resets.add(n.attr)
                    if isinstance(n, ast.Attribute) and n.attr == '_sessionkeys' and isinstance(n.ctx, (ast.Store, ast.Del)):
                        muts.append(n)
                    if isinstance(n, ast.Call) and isinstance(n.func, ast.Attribute) and n.func.attr in MUT and \
                            isinstance(n.func.value, ast.Attribute) and n.func.value.attr == '_sessionkeys':
                        muts.append(n)
                    if isinstance(n, ast.AugAssign) and isinstance(n.target, ast.Attribute) and n.target.attr == '_sessionkeys':
                        muts.append(n)
                for name in ('body', 'orelse', 'finalbody'):
                    sub = getattr(st, name, None)
                    if isinstance(st, (ast.If, ast.For, ast.While, ast.Try, ast.With)) and isinstance(sub, list):
                        scan(sub)
                for h in getattr(st, 'handlers', []) or []:
                    scan(h.body)
            for n in muts:
                missing = sorted(cached - resets)
                rep.check(not missing, rid, '%s.%s' % (ci.name, f.name), 'change of _sessionkeys without resetting %s' % missing,
                          'the recipient set is kept in %s; a statement that changes the session-key packets must reset it, otherwise a key '
                          'added afterwards is not found by decrypt()' % sorted(cached), where='%s:%d' % (f.module.relpath, n.lineno),
                          expected='%s reset next to the change' % sorted(cached), found=ast.unparse(n)[:120])
        scan(f.node.body)


def _or_parts(text):
    """Operands of a chain of `|` / `|=` compositions: '((a | b) | c)' -> ['a', 'b', 'c']."""
    from . import taint
    t = taint.strip_parens(text or '')
    parts = taint._split_top(t, ' | ')
    if len(parts) == 1:
        return [t]
    out = []
    for p in parts:
        out.extend(_or_parts(p))
    return out


def _exception_names(t, fi, depth=0):
    """Class names an `except <t>` clause catches: a name, a tuple, or a class- / module-level constant holding such a tuple."""
    if isinstance(t, ast.Tuple):
        return [x for e in t.elts for x in _exception_names(e, fi, depth + 1)]
    if depth < 3:
        const = None
        if isinstance(t, ast.Attribute) and isinstance(t.value, ast.Name) and fi.cls is not None and \
                (t.value.id in (fi.params[:1] or ['self']) or t.value.id == fi.cls.name):
            const = fi.cls.find_attr(t.attr)
        elif isinstance(t, ast.Name):
            local = [n.value for n in ast.walk(fi.node) if isinstance(n, ast.Assign) and len(n.targets) == 1 and
                     isinstance(n.targets[0], ast.Name) and n.targets[0].id == t.id]
            const = local[0] if len(local) == 1 else fi.module.assigns.get(t.id)
        if isinstance(const, (ast.Tuple, ast.Name, ast.Attribute)) and (isinstance(const, ast.Tuple) or dotted(const) != dotted(t)):
            return _exception_names(const, fi, depth + 1)
    return [(dotted(t) or '?').split('.')[-1]]


WRONG_CANDIDATE_FAILURES = ('TypeError', 'ValueError', 'NotImplementedError', 'PGPDecryptionError')


def check_candidate_search(rep, prog, rid):
    """PGPMessage.decrypt tries every passphrase session-key packet in turn.  A wrong candidate can fail at EITHER step - recovering the
    session key (garbage cipher octet: ValueError / NotImplementedError, wrong sizes: TypeError / ValueError) and decrypting + parsing
    the container with it (unsupported cipher: NotImplementedError, MDC / quick-check mismatch: PGPDecryptionError, garbage packets:
    ValueError / TypeError) - and each such failure must lead to the NEXT candidate.  For every step call inside the candidate loop the
    exception classes caught around it by handlers that continue the search must cover all of them."""
    fi = prog.method('pgpy.pgp', 'PGPMessage', 'decrypt')
    rep.saw(fn=fi)
    universe = _sessionkey_universe(prog)
    loops = [it for it in _sessionkey_iterations(fi, universe) if it[2][0] == 'loop']
    if not loops:
        raise AnalysisError('PGPMessage.decrypt: no loop over the session-key packets')
    builtin_bases = {'TypeError': {'Exception', 'BaseException'}, 'ValueError': {'Exception', 'BaseException'},
                     'NotImplementedError': {'RuntimeError', 'Exception', 'BaseException'}}

    def bases(name):
        out = set(builtin_bases.get(name, ()))
        for ci in prog.classes_by_name.get(name, []):
            out |= {c.name for c in ci.mro()} | {'Exception', 'BaseException'}
            for b in ci.external_bases() if hasattr(ci, 'external_bases') else []:
                out.add(str(b).split('.')[-1])
        return out | {name}
    nsteps = 0
    for var, S, shape, lineno, ittext, loop in loops:
        parent = {}
        for n in ast.walk(loop):
            for ch in ast.iter_child_nodes(n):
                parent[id(ch)] = n
        for call in [n for b in loop.body for n in ast.walk(b) if isinstance(n, ast.Call) and isinstance(n.func, ast.Attribute)]:
            f = call.func
            step = None
            if f.attr == 'decrypt_sk':
                step = 'recovering the session key'
            elif f.attr == 'decrypt' and len(call.args) + len(call.keywords) == 2:
                step = 'decrypting the container with it'
            elif f.attr == 'parse' and any(isinstance(x, ast.Call) and isinstance(x.func, ast.Attribute) and x.func.attr == 'decrypt'
                                           for a in call.args for x in ast.walk(a)):
                step = 'parsing the decrypted container'
            if step is None:
                continue
            nsteps += 1
            caught = set()
            node = call
            while id(node) in parent and node is not loop:
                up = parent[id(node)]
                if isinstance(up, ast.Try) and any(node is b for b in up.body):
                    for h in up.handlers:
                        leaves = h.body and isinstance(h.body[-1], (ast.Raise, ast.Return, ast.Break))
                        if leaves:
                            continue
                        caught |= set(_exception_names(h.type, fi)) if h.type is not None else {'BaseException'}
                node = up
            missing = [e for e in WRONG_CANDIDATE_FAILURES if not (bases(e) & caught)]
            rep.check(not missing, rid, 'PGPMessage.decrypt', '%s: failures that end the search: %s' % (step, missing),
                      'with several passphrase recipients a wrong candidate can fail while %s with any of %s; each must lead to the next '
                      'session-key packet, not out of decrypt()' % (step, ', '.join(WRONG_CANDIDATE_FAILURES)),
                      where='%s:%d' % (fi.module.relpath, call.lineno), expected='caught and continued: %s' % ', '.join(WRONG_CANDIDATE_FAILURES),
                      found='caught around this call: %s' % sorted(caught))
    if nsteps < 2:
        raise AnalysisError('PGPMessage.decrypt: the two steps of a decryption attempt were not found inside the candidate loop')


def check_readdressing(rep, prog, rid):
    """Encrypting an already encrypted message adds a recipient: the result is that message plus the new session-key packet."""
    from . import taint
    for cls in ('PGPMessage', 'PGPKey'):
        fi, paths = encrypt_operation_paths(prog, cls, True, already=True)
        if not paths:
            raise AnalysisError('%s.encrypt: no returning path for an already encrypted message' % cls)
        for d in paths:
            ret = render(d['state'].ret) if d['state'].ret is not None else ''
            parts = _or_parts(ret)
            fresh = [x for x in parts if re.match(r'^(PGPMessage\(\)|<PGPMessage(#\d+)?>)$', x)]
            # the caller's message ITSELF (not a copy: a copied container packet has lost its header) plus the new packet
            ok = len(d['esk']) == 1 and not d['data'] and sorted(x for x in parts if x not in fresh) == sorted([d['esk_obj'], d['subject']]) and \
                len(fresh) <= 1
            if len(d['esk']) == 1:
                ea = d['esk'][0]
                ocls = taint.objects(d['state'])[d['esk_obj']].cls
                names = ocls.find_method('encrypt_sk').params[1:]
                got = taint.bind_call(ea, names)
                algs = [got.get(names[1])] if ENCRYPT_OPS[cls][3] is not None and len(names) > 1 else \
                    [v for p, v, l, _ in d['state'].stores if p == d['esk_obj'] + '.s2k.encalg']
                rep.check(len(algs) == 1 and _callers_cipher(algs[0]), rid, '%s.encrypt' % cls, 'already encrypted: cipher %s' % algs,
                          'a session-key packet added for a further recipient must name the cipher the caller states for the message, not one '
                          're-chosen from that recipient\'s preferences', where=fi.where, scenario='already encrypted',
                          expected="prefs.pop('cipher', <default>)", found=algs)
            rep.check(ok, rid, '%s.encrypt' % cls, 'already encrypted: returns %s' % ret[:120],
                      'for a message that is already encrypted the result must be that message together with the new session-key packet',
                      where=fi.where, expected='%s | <session-key packet>' % d['subject'], found=ret, scenario='already encrypted')


def _sessionkey_universe(prog):
    return [prog.cls('pgpy.packet.packets', 'PKESessionKeyV3'), prog.cls('pgpy.packet.packets', 'SKESessionKeyV4')]


class _Narrow(object):
    """Type-state of one variable that ranges over the heterogeneous session-key list: the set of packet classes it can still be.
    isinstance / hasattr tests narrow it (and / or / not / if / conditional expression / guard clause that leaves the iteration);
    a read of `var.attr` is reported when some remaining class does not have the attribute."""
    def __init__(self, var, universe):
        self.var = var
        self.universe = frozenset(universe)
        self.attrs = {c: class_attr_names(c) for c in universe}
        self.bad = []           # (attr, lineno)
        # a method every class has, but with different parameters, is class specific as a CALL (decrypt_sk(pk) vs decrypt_sk(passphrase))
        self.sigs = {}
        for c in universe:
            for name in self.attrs[c]:
                f = c.find_method(name)
                if f is not None:
                    self.sigs.setdefault(name, {})[c] = tuple(f.params[1:])

    def _is_var(self, n):
        return isinstance(n, ast.Name) and n.id == self.var

    def _classes(self, tnode, S):
        names = []
        for t in (tnode.elts if isinstance(tnode, ast.Tuple) else [tnode]):
            d = dotted(t)
            if d is None:
                return None
            names.append(d.split('.')[-1])
        return frozenset(c for c in S if any(n in {x.name for x in c.mro()} for n in names))

    def test(self, n, S):
        """-> (classes when n is true, classes when n is false); reads inside n are checked under the state they execute in."""
        if isinstance(n, ast.BoolOp):
            if isinstance(n.op, ast.And):
                cur, false = S, frozenset()
                for v in n.values:
                    t, f = self.test(v, cur)
                    false |= f
                    cur = t
                return cur, false
            cur, true = S, frozenset()
            for v in n.values:
                t, f = self.test(v, cur)
                true |= t
                cur = f
            return true, cur
        if isinstance(n, ast.UnaryOp) and isinstance(n.op, ast.Not):
            t, f = self.test(n.operand, S)
            return f, t
        if isinstance(n, ast.Call) and dotted(n.func) == 'isinstance' and len(n.args) == 2 and self._is_var(n.args[0]):
            t = self._classes(n.args[1], S)
            if t is not None:
                return t, S - t
        if isinstance(n, ast.Call) and dotted(n.func) == 'hasattr' and len(n.args) == 2 and self._is_var(n.args[0]) and \
                isinstance(n.args[1], ast.Constant):
            t = frozenset(c for c in S if n.args[1].value in self.attrs[c])
            return t, S - t
        if isinstance(n, ast.Compare) and len(n.ops) == 1 and isinstance(n.ops[0], (ast.Is, ast.IsNot, ast.Eq, ast.NotEq)) and \
                isinstance(n.left, ast.Call) and dotted(n.left.func) == 'type' and len(n.left.args) == 1 and self._is_var(n.left.args[0]):
            t = self._classes(n.comparators[0], S)
            if t is not None:
                exact = frozenset(c for c in t if c.name == (dotted(n.comparators[0]) or '').split('.')[-1])
                return (exact, S) if isinstance(n.ops[0], (ast.Is, ast.Eq)) else (S, exact)
        self.expr(n, S)
        return S, S

    def expr(self, n, S):
        if n is None:
            return
        if isinstance(n, (ast.BoolOp, ast.UnaryOp)) and (isinstance(n, ast.BoolOp) or isinstance(n.op, ast.Not)):
            self.test(n, S)
            return
        if isinstance(n, ast.IfExp):
            t, f = self.test(n.test, S)
            self.expr(n.body, t)
            self.expr(n.orelse, f)
            return
        if isinstance(n, ast.Call) and isinstance(n.func, ast.Attribute) and self._is_var(n.func.value) and \
                len({self.sigs.get(n.func.attr, {}).get(c) for c in S}) > 1:
            self.bad.append((n.func.attr + '()', getattr(n, 'lineno', 0)))
        if isinstance(n, ast.Attribute) and self._is_var(n.value):
            if S and any(n.attr not in self.attrs[c] for c in S):
                self.bad.append((n.attr, getattr(n, 'lineno', 0)))
            return
        if isinstance(n, (ast.ListComp, ast.SetComp, ast.GeneratorExp, ast.DictComp)):
            cur = S
            for g in n.generators:
                self.expr(g.iter, cur)
                for c in g.ifs:
                    cur = self.test(c, cur)[0]
            for e in ([n.key, n.value] if isinstance(n, ast.DictComp) else [n.elt]):
                self.expr(e, cur)
            return
        for ch in ast.iter_child_nodes(n):
            if isinstance(ch, ast.expr):
                self.expr(ch, S)
            elif isinstance(ch, (ast.keyword, ast.Slice)):
                for x in ast.iter_child_nodes(ch):
                    if isinstance(x, ast.expr):
                        self.expr(x, S)

    def truthy_returns(self, stmts, S):
        """For a predicate body: the classes for which some `return` can yield a truthy value."""
        self._rets = []
        self._collect = True
        try:
            self.block(stmts, S)
        finally:
            self._collect = False
        out = frozenset()
        for val, cur in self._rets:
            if val is None or (isinstance(val, ast.Constant) and not val.value):
                continue
            out |= self.test(val, cur)[0] if not isinstance(val, ast.Constant) else cur
        return out

    def block(self, stmts, S):
        """-> classes the variable can be when the block is left normally (None when it always leaves the iteration)."""
        for st in stmts:
            if S is None:
                break
            S = self.stmt(st, S)
        return S

    def stmt(self, st, S):
        if isinstance(st, ast.If):
            t, f = self.test(st.test, S)
            a = self.block(st.body, t)
            b = self.block(st.orelse, f)
            if a is None:
                return b
            if b is None:
                return a
            return a | b
        if isinstance(st, (ast.Continue, ast.Break, ast.Return, ast.Raise)):
            if isinstance(st, ast.Return) and getattr(self, '_collect', False):
                self._rets.append((st.value, S))
                return None             # the value is analysed by truthy_returns under this state
            for ch in ast.iter_child_nodes(st):
                if isinstance(ch, ast.expr):
                    self.expr(ch, S)
            return None
        if isinstance(st, (ast.For, ast.While)):
            if isinstance(st, ast.For):
                self.expr(st.iter, S)
            else:
                self.test(st.test, S)
            self.block(st.body, S)
            self.block(st.orelse, S)
            return S
        if isinstance(st, ast.Try):
            outs = [self.block(st.body + st.orelse, S)]
            for h in st.handlers:
                outs.append(self.block(h.body, S))
            outs = [o for o in outs if o is not None]
            res = frozenset().union(*outs) if outs else None
            if st.finalbody:
                self.block(st.finalbody, S)
            return res
        if isinstance(st, ast.With):
            for it in st.items:
                self.expr(it.context_expr, S)
            return self.block(st.body, S)
        if isinstance(st, (ast.FunctionDef, ast.AsyncFunctionDef, ast.ClassDef)):
            return S
        if isinstance(st, (ast.Assign, ast.AugAssign, ast.AnnAssign)):
            tg = st.targets if isinstance(st, ast.Assign) else [st.target]
            if any(self._is_var(t) for t in tg):
                self.expr(st.value, S)
                return frozenset()          # the variable is rebound: no longer an element of the list
        for ch in ast.iter_child_nodes(st):
            if isinstance(ch, ast.expr):
                self.expr(ch, S)
        return S


def _sessionkey_iterations(fn, universe):
    """Binding constructs of fn whose variable ranges over a `_sessionkeys` list (directly, through a local alias, through
    iter/list/tuple/reversed/sorted/enumerate/filter or through an identity comprehension):
    -> [(var name, classes the elements can be, [(kind, nodes)], lineno, iterable text)]."""
    assigns = {}
    for n in ast.walk(fn.node):
        if isinstance(n, ast.Assign) and len(n.targets) == 1 and isinstance(n.targets[0], ast.Name):
            assigns.setdefault(n.targets[0].id, []).append(n.value)

    local_defs = {n.name: n for n in ast.walk(fn.node) if isinstance(n, ast.FunctionDef) and n is not fn.node}

    def elements(it, depth=0):
        """Classes of the elements of iterable `it` if it derives from a session-key list, else None."""
        if depth > 4:
            return None
        if isinstance(it, ast.Attribute) and it.attr == '_sessionkeys':
            return frozenset(universe)
        if isinstance(it, ast.Name) and len(assigns.get(it.id, [])) == 1:
            return elements(assigns[it.id][0], depth + 1)
        if isinstance(it, ast.Call) and dotted(it.func) in ('iter', 'list', 'tuple', 'reversed', 'sorted', 'set', 'frozenset') and it.args:
            return elements(it.args[0], depth + 1)
        if isinstance(it, ast.Call) and dotted(it.func) == 'filter' and len(it.args) == 2:
            S = elements(it.args[1], depth + 1)
            lam = it.args[0]
            if S is not None and isinstance(lam, ast.Lambda) and len(lam.args.args) == 1:
                nr = _Narrow(lam.args.args[0].arg, universe)
                return nr.test(lam.body, S)[0]
            if S is not None and isinstance(lam, ast.Name) and lam.id in local_defs and len(local_defs[lam.id].args.args) == 1:
                # filter(<local predicate>, ...): the elements for which the predicate can return something truthy
                d = local_defs[lam.id]
                nr = _Narrow(d.args.args[0].arg, universe)
                return nr.truthy_returns(d.body, S)
            if S is not None and isinstance(lam, ast.Attribute) and fn.cls is not None and fn.cls.find_method(lam.attr) is not None:
                # filter(Class.pred / self.pred, ...): a one-argument predicate method of the same class
                d = fn.cls.find_method(lam.attr).node
                static = any(dotted(x) == 'staticmethod' for x in d.decorator_list)
                ps = d.args.args if static else d.args.args[1:]
                if len(ps) == 1:
                    nr = _Narrow(ps[0].arg, universe)
                    return nr.truthy_returns(d.body, S)
            return S
        if isinstance(it, (ast.GeneratorExp, ast.ListComp, ast.SetComp)) and len(it.generators) == 1 and \
                isinstance(it.generators[0].target, ast.Name) and isinstance(it.elt, ast.Name) and it.elt.id == it.generators[0].target.id:
            g = it.generators[0]
            S = elements(g.iter, depth + 1)
            if S is None:
                return None
            nr = _Narrow(g.target.id, universe)
            for c in g.ifs:
                S = nr.test(c, S)[0]
            return S
        return None

    def target_var(target, it):
        if isinstance(it, ast.Call) and dotted(it.func) == 'enumerate' and it.args and isinstance(target, ast.Tuple) and len(target.elts) == 2:
            return target.elts[1], it.args[0]
        return target, it

    out = []
    for node in ast.walk(fn.node):
        if isinstance(node, (ast.GeneratorExp, ast.ListComp, ast.SetComp, ast.DictComp)):
            for gi, g in enumerate(node.generators):
                tv, it = target_var(g.target, g.iter)
                S = elements(it)
                if S is None or not isinstance(tv, ast.Name):
                    continue
                later = [x for h in node.generators[gi + 1:] for x in [h.iter] + list(h.ifs)]
                body = [node.key, node.value] if isinstance(node, ast.DictComp) else [node.elt]
                out.append((tv.id, S, ('comp', list(g.ifs), later + body), node.lineno, ast.unparse(g.iter), node))
        elif isinstance(node, ast.For):
            tv, it = target_var(node.target, node.iter)
            S = elements(it)
            if S is None or not isinstance(tv, ast.Name):
                continue
            out.append((tv.id, S, ('loop', list(node.body)), node.lineno, ast.unparse(node.iter), node))
    return out


def check_sessionkey_consumers(rep, prog, rid):
    """Every iteration over a `_sessionkeys` list reads class-specific fields of an element only where the element is known (isinstance
    filter / guard) to be of a class that has them.  Decided by narrowing the set of packet classes the loop variable can be along the
    control flow of the loop body / comprehension - loop vs comprehension, guard clause vs nested if, operand order do not matter."""
    universe = _sessionkey_universe(prog)
    n = 0
    for fn in prog.all_functions():
        for var, S, shape, lineno, ittext, _node in _sessionkey_iterations(fn, universe):
            n += 1
            nr = _Narrow(var, universe)
            if shape[0] == 'comp':
                cur = S
                for c in shape[1]:
                    cur = nr.test(c, cur)[0]
                for e in shape[2]:
                    nr.expr(e, cur)
            else:
                nr.block(shape[1], S)
            specific = sorted(set(a for a, _ in nr.bad))
            rep.check(not specific, rid, fn.qualname, 'iteration over %s touching %s' % (ittext[:50], specific),
                      'a message can carry public-key and passphrase session-key packets at once; class-specific fields %s are read '
                      'without an isinstance filter' % specific, where='%s:%d' % (fn.module.relpath, lineno),
                      expected='isinstance(%s, <class>) filter before %s' % (var, specific), found=ittext[:160])
    return n


def _selection_condition(s, recv, call):
    """How the element `recv` (receiver of decrypt_sk) was chosen from message._sessionkeys on this path:
    -> (bound variable, condition text) or None when the receiver is not an element of that list.
    Understood: next(...) / [0] / iter / list / tuple around a (chain of) filtered comprehension(s), and a selection LOOP over the
    list (the element is bound or used under the conditions decided in that iteration).  Anything else that still mentions the list
    is an AnalysisError."""
    from . import taint
    t = recv
    while True:
        r = taint.split_args(t)
        if r is not None and r[0] in ('next', 'iter', 'list', 'tuple') and r[1]:
            t = r[1][0]
            continue
        if t.endswith('[0]') and taint._balanced(t[:-3]):
            t = t[:-3]
            continue
        break
    if t == 'message._sessionkeys':
        return '$0', 'True'         # an element of the unfiltered list
    m = re.match(r'^EACH\((\$[\d.]+) in message\._sessionkeys(?: if (.*))?;\1\)$', t)
    if m is not None and taint._balanced(m.group(2) or ''):
        conds = taint._split_top(m.group(2), ' if ') if m.group(2) else ['True']
        return m.group(1), '(' + ') and ('.join(conds) + ')'
    if re.match(r'^\$[\d.]+$', t) and s.bound.get(t) == 'message._sessionkeys' and t in s.loops:
        colltext, paths = s.loops[t]
        pre = taint._split_top(colltext, ' if ')[1:]
        alts = []
        marked = [p for p in paths if any(c[4] is call[4] for c in p[2]) or t in p[1].values()]
        # the loop variable itself is used after the loop: it is the element of whichever iteration path left the loop (on the state
        # that left by `break` these are the breaking paths only; without a for-else every path counts, also the exhausting one)
        for facts, changed, calls, status in (marked or paths):
            lits = ['(%s)' % c for c in pre]
            for ft, val, sk in facts:
                if sk is None:
                    continue            # except-arm markers: not a decision about the element
                lits.append('(%s)' % ft if val else 'not (%s)' % ft)
            alts.append(' and '.join(lits) if lits else 'True')
        if alts:
            return t, '(' + ') or ('.join(alts) + ')'
    if 'message._sessionkeys' in recv or '$' in recv:
        raise AnalysisError('PGPKey.decrypt: the session-key packet is selected in a way the rule cannot read: %s' % recv[:160])
    return None


def check_pkesk_selection(rep, prog, rid):
    """PGPKey.decrypt recovers the session key from a packet selected among message._sessionkeys by class, algorithm AND key id.
    The selecting condition (comprehension filters or the decisions of a selection loop) is read as a boolean function (truth table
    over its atoms), not as text."""
    from . import taint
    fi = prog.method('pgpy.pgp', 'PGPKey', 'decrypt')
    outs = taint.run_roles(prog, fi, ('self', 'message'), bind={'message.is_encrypted': Const(True)})
    seen = 0
    for s in outs:
        if s.raised:
            continue
        dsk = [c for c in s.calls if c[0].endswith('.decrypt_sk')]
        if not dsk:
            continue                # delegation to a subkey / early return: not the path that selects a packet
        seen += 1
        t = dsk[0][0][:-len('.decrypt_sk')]
        sel = _selection_condition(s, t, dsk[0])
        if sel is None:
            rep.violation(rid, 'PGPKey.decrypt', 'session-key packet selection %s' % t[:140],
                          'the packet used must be selected from the message\'s session-key packets by key id and algorithm', where=fi.where, found=t)
            continue
        v, cond = sel
        fn = taint.BoolFn(cond)
        need = [taint.BoolFn.isinst(v, 'PKESessionKey'), taint.BoolFn.eq(v + '.pkalg', 'self.key_algorithm'),
                taint.BoolFn.eq(v + '.encrypter', 'self.fingerprint.keyid')]
        alt = [taint.BoolFn.isinst(v, 'PKESessionKeyV3')] + need[1:]
        ok = any(all(fn.implies(a) for a in atoms) and fn.holds_when(atoms) for atoms in (need, alt))
        rep.check(ok, rid, 'PGPKey.decrypt', 'session-key packet selection %s' % cond[:140],
                  'with several recipients the packet used must be the one addressed to this key id (and algorithm)', where=fi.where,
                  expected='isinstance(pk, PKESessionKey) and pk.pkalg == self.key_algorithm and pk.encrypter == self.fingerprint.keyid',
                  found=cond)
    if not seen:
        rep.violation(rid, 'PGPKey.decrypt', 'no decrypt_sk call', 'the key never recovers a session key', where=fi.where)


def check_hash_object(rep, prog, rid, construct, text, S, where, scenario=None):
    """The hash object handed to the key material must be the `cryptography` hash named like the signature's hash algorithm.
    `text` is the interpreter's value text of the argument (locals already resolved); S the text of the signature object.  The
    algorithm may be read through the PGPSignature property or the packet field it returns (C05.5 pins that getter)."""
    algs = ['%s.hash_algorithm' % S, '%s._signature.halg' % S]
    direct = ['getattr(hashes, %s.name)()' % a for a in algs]
    if text in direct:
        rep.ok(rid, construct, 'hash object %s' % text, scenario=scenario)
        return True
    m = None
    for a in algs:
        m = m or re.match(r'^%s\.([A-Za-z_][A-Za-z0-9_]*)(\(\))?$' % re.escape(a), text or '')
    if not m:
        rep.violation(rid, construct, 'hash argument %s' % text,
                      'the hash object must be built from the hash algorithm of the signature being processed', where=where,
                      expected=direct[0], found=text, scenario=scenario)
        return False
    ci = prog.cls('pgpy.constants', 'HashAlgorithm')
    g = ci.methods.get(m.group(1))
    if g is None:
        raise AnalysisError('HashAlgorithm.%s not found' % m.group(1))
    from . import tables
    ds = tables.dict_literals(g.node)
    if len(ds) != 1:
        raise AnalysisError('HashAlgorithm.%s: cannot read its lookup table' % m.group(1))
    d = next(iter(ds.values()))
    ok = True
    for k, v in zip(d.keys, d.values):
        kn = (dotted(k) or ast.unparse(k)).split('.')[-1]
        vv = v.func if isinstance(v, ast.Call) else v
        vn = (dotted(vv) or ast.unparse(vv)).split('.')[-1]
        if kn != vn:
            ok = False
            rep.violation(rid, 'HashAlgorithm.%s' % m.group(1), 'table entry %s -> %s' % (kn, vn),
                          'hash algorithm %s is mapped to the different hash function %s' % (kn, vn), where=g.where,
                          expected='%s -> hashes.%s' % (kn, kn), found='%s -> %s' % (kn, ast.unparse(v)), scenario=scenario)
    if ok:
        rep.ok(rid, construct, 'hash object via identity table HashAlgorithm.%s' % m.group(1), scenario=scenario)
    return ok


def check_cipher_tables(rep, prog, rid):
    """Symmetric cipher ids, key sizes and cipher classes against the RFC 4880 9.2 / RFC 5581 table (independent oracle).  The two
    lookup properties are evaluated per enum member (eval_lookup_method), so the table may be a local dict, a hoisted constant, an
    if-chain ... - only what each member maps to counts."""
    ci = prog.cls('pgpy.constants', 'SymmetricKeyAlgorithm')
    mem = ci.enum_members()
    want_ids = {'Plaintext': 0, 'IDEA': 1, 'TripleDES': 2, 'CAST5': 3, 'Blowfish': 4, 'AES128': 7, 'AES192': 8, 'AES256': 9,
                'Twofish256': 10, 'Camellia128': 11, 'Camellia192': 12, 'Camellia256': 13}
    bad = {k: (mem.get(k), v) for k, v in want_ids.items() if mem.get(k) != v}
    rep.check(not bad, rid, 'SymmetricKeyAlgorithm', 'ids %s' % bad, 'cipher ids must be the RFC 4880 9.2 / RFC 5581 values', where=ci.where,
              found=bad)

    def per_member(meth):
        """member -> what the lookup property returns for it (int or text), decided by the interpreter with the receiver pinned to the
        member: a dict literal, an if-chain, .get(), a hoisted constant or a conditional expression give the same answer."""
        from . import taint
        from .sigdata import enum_const
        f = ci.methods.get(meth)
        if f is None:
            raise AnalysisError('SymmetricKeyAlgorithm.%s vanished' % meth)
        out = {}
        for m in mem:
            rets = []
            for st in taint.run_roles(prog, f, ('self',), args={'self': enum_const(prog, ci.name, m)}):
                if st.raised is None and st.ret is not None:
                    v = st.ret.value if isinstance(st.ret, Const) else render(st.ret)
                    if v not in rets:
                        rets.append(v)
            if len(rets) > 1:
                out[m] = 'undecided: %s' % ' | '.join(map(str, rets[:3]))       # compared with the expected table like any other value
            elif rets and rets[0] is not None:
                out[m] = rets[0]
        return f, out
    want_ks = {'IDEA': 128, 'TripleDES': 192, 'CAST5': 128, 'Blowfish': 128, 'AES128': 128, 'AES192': 192, 'AES256': 256,
               'Twofish256': 256, 'Camellia128': 128, 'Camellia192': 192, 'Camellia256': 256}
    f, got = per_member('key_size')
    rep.check(got == want_ks, rid, 'SymmetricKeyAlgorithm.key_size', 'key sizes %s' % {k: v for k, v in got.items() if want_ks.get(k) != v},
              'cipher key sizes must be the RFC values (a generated session key has this many bits)',
              where=f.where, expected=want_ks, found=got)
    # the cipher class each id is bound to
    want_c = {'IDEA': 'algorithms.IDEA', 'TripleDES': 'algorithms.TripleDES', 'CAST5': 'algorithms.CAST5', 'Blowfish': 'algorithms.Blowfish',
              'AES128': 'algorithms.AES', 'AES192': 'algorithms.AES', 'AES256': 'algorithms.AES', 'Camellia128': 'algorithms.Camellia',
              'Camellia192': 'algorithms.Camellia', 'Camellia256': 'algorithms.Camellia'}
    cf, gotc = per_member('cipher')
    gotc = {k: v for k, v in gotc.items() if k in want_c}
    rep.check(gotc == want_c, rid, 'SymmetricKeyAlgorithm.cipher', 'cipher classes', 'each cipher id must be bound to its own block cipher',
              where=cf.where, expected=want_c, found=gotc)
    # a cipher id WITHOUT a table entry (a wrong passphrase turns the cipher octet of an SKESK into garbage; 0 = Plaintext is a member):
    # the lookup must fail with one of the classes the candidate search of PGPMessage.decrypt continues on - a bare `table[self]`
    # (KeyError) or another class aborts the search although a later session-key packet would have worked (seeded change C03-w6mut1)
    from . import taint as _t
    from .sigdata import enum_const as _ec
    import re as _re
    for meth, table in (('cipher', want_c), ('key_size', want_ks)):
        f = ci.methods[meth]
        for m in sorted(set(mem) - set(table) - {'Twofish256'}):
            outcomes = []
            for st in _t.run_roles(prog, f, ('self',), args={'self': _ec(prog, ci.name, m)}):
                if st.raised is not None:
                    outcomes.append(render(st.raised) if not isinstance(st.raised, str) else st.raised)
                elif st.ret is not None:
                    r = render(st.ret)
                    mm = _re.match(r'^\{(.*)\}\[%s\.(\w+)\]$' % _re.escape(ci.name), r, _re.S)
                    if mm and ('%s.%s:' % (ci.name, mm.group(2))) not in mm.group(1):
                        outcomes.append('KeyError(%s.%s)' % (ci.name, mm.group(2)))
            classes = sorted(set(o.split('(')[0].split('.')[-1] for o in outcomes))
            bad_cls = [c for c in classes if c not in WRONG_CANDIDATE_FAILURES]
            rep.check(not bad_cls, rid, 'SymmetricKeyAlgorithm.%s' % meth, 'cipher id %s without an entry fails with %s' % (m, classes or 'nothing decided'),
                      'a cipher id the table does not know must be refused with an exception the candidate search of PGPMessage.decrypt '
                      'continues on (%s): a wrong passphrase yields such ids, and any other class ends the search before the matching '
                      'session-key packet is tried' % ', '.join(WRONG_CANDIDATE_FAILURES), where=f.where,
                      expected='NotImplementedError', found=outcomes)
    # the block size is the bound cipher's own (the zero IV, gen_iv and the SEIPD prefix are sized by it)
    from . import taint
    bf = ci.methods.get('block_size')
    if bf is None:
        raise AnalysisError('SymmetricKeyAlgorithm.block_size vanished')
    rets = sorted(set(render(st.ret) for st in taint.run_roles(prog, bf, ('self',)) if st.raised is None))
    if rets != ['self.cipher.block_size']:
        want_bs = {'IDEA': 64, 'TripleDES': 64, 'CAST5': 64, 'Blowfish': 64, 'AES128': 128, 'AES192': 128, 'AES256': 128, 'Twofish256': 128,
                   'Camellia128': 128, 'Camellia192': 128, 'Camellia256': 128}
        _, gotb = per_member('block_size')
        gotb = {k: v for k, v in gotb.items() if k in want_bs or isinstance(v, int)}
        rets = gotb if all(isinstance(v, int) for v in gotb.values()) else rets
        rep.check(gotb == want_bs, rid, 'SymmetricKeyAlgorithm.block_size', 'block size %s' % rets,
                  'the block size of a cipher id must be that of the block cipher it is bound to', where=bf.where,
                  expected='self.cipher.block_size', found=rets)
    else:
        rep.ok(rid, 'SymmetricKeyAlgorithm.block_size', 'block size is the bound cipher\'s own')


def check_pubkey_derivation(rep, prog, rid):
    """PrivKeyV4.pubkey(): the public packet is built from public classes and from copies of the private packet's own
    public terms (created, algorithm, public fields, curve id, KDF parameters) - nothing else, nothing recomputed.

    Decided on interpreter values only: the packet is whatever object the method returns, its fields are the attribute stores /
    setattr calls whose target is rooted at that object, iterations are the bound variables of the path (State.bound) - local
    names, temporaries for `self.keymaterial` / `pk.keymaterial`, if-vs-conditional expression, merged or split algorithm tests
    and statement order do not matter."""
    from .sigdata import enum_const
    from .interp import bound_over
    fi = prog.method('pgpy.packet.packets', 'PrivKeyV4', 'pubkey')
    rep.saw(fn=fi)
    where = fi.where
    SRC = 'self.keymaterial'
    PUBF = SRC + '.__pubfields__'
    secret_words = ('__privfields__', '__mpis__', 's2k', 'encbytes', 'chksum', '__privkey__')
    ctors = ('PubKeyV4', 'PubSubKeyV4', 'PrivKeyV4', 'PrivSubKeyV4', 'PubKey', 'PrivKey')

    def iterations(s, scen):
        # every summarised loop / comprehension of the path ranges over the public field names of the private material
        for var, coll in sorted(s.bound.items()):
            rep.check(coll == PUBF, rid, 'PrivKeyV4.pubkey', 'loop over %s' % coll,
                      'only the public field names may be copied into the public packet', where=where,
                      expected='iteration over %s' % PUBF, found=coll, scenario=scen)

    # all branches at once (algorithm unknown): no iteration anywhere in the method ranges over anything else
    for s in Interp(prog, Scenario(inline=noinline, join_unknown=True)).run(fi):
        iterations(s, 'any algorithm')
    for alg, extra in (('RSAEncryptOrSign', {}), ('DSA', {}), ('ECDSA', {'oid': (SRC + '.oid',)}), ('EdDSA', {'oid': (SRC + '.oid',)}),
                       ('ECDH', {'oid': (SRC + '.oid',), 'kdf': ('copy.copy(%s.kdf)' % SRC, SRC + '.kdf')})):
        sc = Scenario(inline=noinline, bind={'self.pkalg': enum_const(prog, 'PubKeyAlgorithm', alg)})
        outs = Interp(prog, sc).run(fi)
        if not any(not s.raised for s in outs):
            raise AnalysisError('PrivKeyV4.pubkey never returns for %s' % alg)
        for s in outs:
            if s.raised:
                continue
            ctor = [c[0] for c in s.calls if c[0] in ctors]
            rep.check(bool(ctor) and set(ctor) <= {'PubKeyV4', 'PubSubKeyV4'}, rid, 'PrivKeyV4.pubkey', '%s: constructs %s' % (alg, sorted(set(ctor))),
                      'the public twin must be a public-key packet class', where=where, scenario=alg)
            iterations(s, alg)
            pk = render(s.ret)                       # the returned object, whatever the local is called
            fieldvars = bound_over(s, PUBF)          # canonical names of the variables ranging over the public field names
            got = {}
            for p, v, l, _ in s.stores:
                if p.startswith(pk + '.'):
                    got.setdefault(p[len(pk) + 1:], []).append(v)
            copied = []
            for c in s.calls:
                if c[0] == 'setattr' and len(c[1]) == 3 and c[1][0] == pk + '.keymaterial':
                    name, val = c[1][1], c[1][2]
                    okv = name in fieldvars and val in ('copy.copy(getattr(%s, %s))' % (SRC, name), 'getattr(%s, %s)' % (SRC, name))
                    copied.append(okv)
                    rep.check(okv, rid, 'PrivKeyV4.pubkey', '%s: public field <%s> = %s' % (alg, name, val),
                              'each public field of the twin must be a copy of the private packet\'s own field of the same name',
                              where=where, expected='setattr(pk.keymaterial, f, copy.copy(getattr(%s, f))) for f in %s' % (SRC, PUBF),
                              found='%s = %s' % (name, val), scenario=alg)
                    rep.check(not any(w in val or w in name for w in secret_words), rid, 'PrivKeyV4.pubkey', '%s: secret in field copy %s = %s' % (alg, name, val),
                              'nothing but the public terms may be put into the public packet', where=where, scenario=alg)
            rep.check(any(copied), rid, 'PrivKeyV4.pubkey', '%s: public fields copied: %d site(s)' % (alg, len(copied)),
                      'the public fields of the key material must be copied into the twin', where=where,
                      expected='setattr(pk.keymaterial, f, copy.copy(getattr(%s, f))) for f in %s' % (SRC, PUBF), found=None if not copied else copied, scenario=alg)
            want = {'created': ('self.created',), 'pkalg': ('PubKeyAlgorithm.%s' % alg, 'self.pkalg')}
            for k, v in extra.items():
                want['keymaterial.%s' % k] = v
            for k, vals in want.items():
                g = got.get(k) or [None]
                rep.check(all(x in vals for x in g), rid, 'PrivKeyV4.pubkey', '%s: public %s = %s' % (alg, k, g[0] if len(g) == 1 else g),
                          'the public twin\'s %s must be a copy of the private packet\'s own value (same fingerprint, same behaviour)' % k,
                          where=where, expected=vals[0], found=g[0] if len(g) == 1 else g, scenario=alg)
            for k, vs in got.items():
                for v in vs:
                    rep.check(k in want and not any(w in v for w in secret_words), rid, 'PrivKeyV4.pubkey', '%s: extra/secret store %s = %s' % (alg, k, v),
                              'nothing but the public terms may be put into the public packet', where=where, scenario=alg)
            rep.check(any(c[0] == pk + '.update_hlen' for c in s.calls), rid, 'PrivKeyV4.pubkey', '%s: update_hlen' % alg,
                      'the public packet length must be recomputed', where=where, scenario=alg)


KEY_FIELDS = ('created', 'pkalg', 'keymaterial')


def _strip_copy(t):
    """The value a copying expression carries: copy.copy(X), X.copy(), X[:], bytearray(X) / bytes(X) / list(X) / dict(X) -> X."""
    t = t or ''
    for pat in (r'^copy\.(?:copy|deepcopy)\((.+)\)$', r'^(.+)\.copy\(\)$', r'^(.+)\[:\]$',
                r'^(?:bytearray|bytes|list|dict|collections\.OrderedDict)\((.+)\)$'):
        m = re.match(pat, t)
        if m and m.group(1).count('(') == m.group(1).count(')'):
            return m.group(1)
    return t


def check_key_packet_rebuilds(rep, prog, rid):
    """Every place that builds a V4 key packet out of another one (PrivKeyV4.pubkey, PubKeyV4.__copy__, the sub-key conversion in
    PGPKey.add_subkey, any other `XKeyV4()` followed by field copies) takes creation time, algorithm and key material from ONE
    source packet: the fields that enter the fingerprint hash travel together.

    Sites are located by what they do (a function that constructs a class of the PubKeyV4 family, or `self.__class__()` inside
    that family) and decided on interpreter store / setattr values: the rebuilt object is the base of the stores, the source is
    the root of the stored values - local names, temporaries and statement order do not matter."""
    fam = set(c.name for c in prog.all_classes() if any(getattr(b, 'name', None) == 'PubKeyV4' for b in c.mro()))
    if not fam:
        raise AnalysisError('PubKeyV4 family vanished')
    sites = 0
    for fn in prog.all_functions():
        self0 = fn.params[0] if (fn.cls is not None and fn.params) else None
        ctor = False
        for n in ast.walk(fn.node):
            if isinstance(n, ast.Call):
                d = dotted(n.func) or ''
                if d.split('.')[-1] in fam and getattr(prog.lookup(fn.module, d.split('.')[-1]), 'name', None) in fam:
                    ctor = True
                elif self0 is not None and fn.cls.name in fam and d in ('%s.__class__' % self0, 'type(%s)' % self0):
                    ctor = True
                elif self0 is not None and fn.cls.name in fam and isinstance(n.func, ast.Call) and dotted(n.func.func) == 'type':
                    ctor = True
        weak = False
        if not ctor:
            # a family class used as a value (k = PubSubKeyV4 if .. else PubKeyV4; k()): any mention that is not the type
            # argument of isinstance / issubclass makes the function a candidate; the stores decide whether it is a site
            typeargs = set()
            for n in ast.walk(fn.node):
                if isinstance(n, ast.Call) and dotted(n.func) in ('isinstance', 'issubclass') and len(n.args) == 2:
                    typeargs.update(id(x) for x in ast.walk(n.args[1]))
            weak = any(isinstance(n, ast.Name) and isinstance(n.ctx, ast.Load) and n.id in fam and id(n) not in typeargs and
                       getattr(prog.lookup(fn.module, n.id), 'name', None) in fam for n in ast.walk(fn.node))
        if not (ctor or weak):
            continue
        try:
            outs = Interp(prog, Scenario(inline=noinline, join_unknown=True)).run(fn)
        except AnalysisError:
            if weak:
                continue                          # mentions a key class, constructs none that the interpreter can follow
            raise
        for s in outs:
            if s.raised:
                continue
            if weak and not any(all(a in fam for a in join_alternatives(c[0])) for c in s.calls):
                continue                          # no key packet is constructed on this path
            # objects that receive fingerprint fields on this path: base text -> {field: [(value text, stored sub-path)]}
            objs = {}
            for p, v, l, _ in s.stores:
                parts = p.split('.')
                for i, a in enumerate(parts):
                    if a in KEY_FIELDS and i > 0:
                        base = '.'.join(parts[:i])
                        objs.setdefault(base, {}).setdefault(a, []).append((v, '.'.join(parts[i:])))
                        break
            for c in s.calls:
                if c[0] == 'setattr' and len(c[1]) == 3 and c[1][0].endswith('.keymaterial'):
                    base = c[1][0][:-len('.keymaterial')]
                    m = re.match(r'^getattr\((.+), (.+)\)$', _strip_copy(c[1][2]))
                    val = '%s.<%s>' % (m.group(1), m.group(2)) if m else c[1][2]
                    objs.setdefault(base, {}).setdefault('keymaterial', []).append((val, 'keymaterial.<%s>' % c[1][1]))
            for base, got in sorted(objs.items()):
                if base == self0:
                    continue                      # an object setting its own fields (__init__, parse, setters) is not a rebuild
                srcs = {}
                for a, vals in got.items():
                    for v, sub in vals:
                        v = _strip_copy(v)
                        src = v[:-len('.' + sub)] if v.endswith('.' + sub) else None
                        srcs.setdefault(a, []).append((src, v))
                roots = sorted(set(src for a in srcs for src, v in srcs[a] if src is not None))
                if not roots:
                    continue                      # fields given by the caller (PrivKeyV4.new): a new key, not a rebuilt one
                sites += 1
                odd = ['%s <- %s' % (a, v) for a in sorted(srcs) for src, v in srcs[a] if src is None or src != roots[0]]
                missing = [a for a in KEY_FIELDS if a not in srcs]
                rep.check(len(roots) == 1 and not odd and not missing, rid, fn.qualname,
                          'key packet %s rebuilt from %s%s%s' % (base, roots, '; other: %s' % odd if odd else '', '; not copied: %s' % missing if missing else ''),
                          'a key packet rebuilt from another must take creation time, algorithm and key material from that one packet '
                          '(they enter the fingerprint together)', where=fn.where,
                          expected='%s.created / .pkalg / .keymaterial <- one source packet' % base,
                          found={a: [v for _, v in srcs[a]] for a in sorted(srcs)},
                          detail='key packet %s: created / pkalg / keymaterial all from %s' % (base, roots[0]))
    return sites


def _serialised_attrs(prog, K):
    """Instance attributes of K whose values decide the octets K serialises to (read off the interpreted serialiser: return
    terms and branch conditions), or None if K has no serialiser."""
    fi = K.find_method('__bytearray__') or K.find_method('to_mpibytes')
    if fi is None:
        return None
    first = fi.params[0]
    names = set()
    for s in Interp(prog, Scenario(self_cls=K)).run(fi):
        texts = [f[0] for f in s.facts]
        if not s.raised:
            texts.append(render(s.ret))
        for t in texts:
            names.update(re.findall(r'(?<![\w.])%s\.([A-Za-z_]\w*)' % re.escape(first), t))
    out = set()
    for a in names:
        if a.startswith('__') or K.find_method(a) is not None and K.find_prop(a) is None and K.find_plain_prop(a) is None:
            continue
        out.add(a)
    return out


def _property_slot(K, name):
    """The instance attribute a property of K returns unchanged (`return self._x`), else None."""
    p = K.find_prop(name)
    getter = p.getter if p is not None else (K.find_plain_prop(name) or {}).get('get')
    if getter is None:
        return None
    rets = [n for n in ast.walk(getter.node) if isinstance(n, ast.Return)]
    first = getter.params[0] if getter.params else None
    if len(rets) == 1 and isinstance(rets[0].value, ast.Attribute) and isinstance(rets[0].value.value, ast.Name) and \
            rets[0].value.value.id == first:
        return rets[0].value.attr
    return None


def _mpis_names(prog, K, after=None):
    """Names K().__mpis__ yields (class-level tuple, or a generator property chaining super().__mpis__), else None."""
    if after is None:
        # decided by the checker's own evaluation of the property on a bare instance: loops, `yield from`, super() chains and
        # tuple concatenations all denote the same sequence of names
        from . import ceval
        try:
            ev = ceval.Evaluator(prog)
            v = ev.get(ceval.Obj(K, {}), '__mpis__')
            names = list(ev._iter(v))
            if all(isinstance(x, str) for x in names):
                return names
        except (ceval.NoEval, ceval.Raised, ceval.Diverged):
            pass
    mro = K.mro()
    if after is not None:
        mro = mro[mro.index(after) + 1:]
    for c in mro:
        if '__mpis__' in c.attrs:
            try:
                return list(ast.literal_eval(c.attrs['__mpis__']))
            except ValueError:
                return None
        getter = (c.plain_props.get('__mpis__') or {}).get('get')
        if getter is None:
            continue
        names = []
        outs = Interp(prog, Scenario(self_cls=K, inline=noinline)).run(getter)
        if len(outs) != 1:
            return None
        for y in outs[0].yields:
            t = render(y)
            m = re.match(r"^'(\w+)'$", t)
            if m:
                names.append(m.group(1))
            elif re.match(r'^EACH\((\$[\d.]+) in super\(\)\.__mpis__;\1\)$', t) or t == '*super().__mpis__':
                sup = _mpis_names(prog, K, after=c)
                if sup is None:
                    return None
                names.extend(sup)
            else:
                return None
        return names
    return None


def dispatched_material(prog, module, clsname, setter, attr, enum=('pgpy.constants', 'PubKeyAlgorithm')):
    """Class names of the objects `clsname.<setter>(member)` leaves in `self.<attr>` for every integer member of the enum
    (checker-side finite-point evaluation, sa.ceval): the material classes a dispatching property setter can choose, its
    fallback included.  None entries (nothing stored at that member) are dropped."""
    from . import ceval
    ci = prog.cls(module, clsname)
    en = prog.cls(*enum)
    if ci is None or en is None:
        raise AnalysisError('%s / %s vanished' % (clsname, enum[1]))
    g = ci.find_method(setter)
    if g is None:
        raise AnalysisError('%s.%s vanished' % (clsname, setter))
    ev = ceval.Evaluator(prog)
    out = {}
    for name, val in sorted(en.enum_members().items()):
        if not isinstance(val, int) or isinstance(val, bool):
            continue
        o = ceval.Obj(ci, {})
        try:
            ev.reset()
            ev.call(g, o, (val,))
        except (ceval.NoEval, ceval.Raised, ceval.Diverged) as e:
            raise AnalysisError('%s.%s cannot be evaluated at %s: %s' % (clsname, setter, name, e))
        v = o.attrs.get(attr)
        if v is None:
            try:
                v = ev.get(o, attr)          # stored through a property setter (self._signature ...)
            except (ceval.NoEval, ceval.Raised, ceval.Diverged):
                v = None
        if isinstance(v, ceval.Obj):
            out[name] = v.cls.name
    if not out:
        raise AnalysisError('%s.%s stores no %s object at any member of %s' % (clsname, setter, attr, enum[1]))
    return g, out


def check_copy_carries_serialised(rep, prog, rid, roots=None):
    """The octets of the public key material enter the fingerprint, so a copy must serialise to the same octets: `__copy__` of
    every key-material class and of every field class its serialised attributes hold (ECPoint, ...) carries each attribute
    the serialiser reads over from the source object - it is not recomputed from the value, defaulted or normalised.

    Decided on interpreter values: the attributes read are those occurring in the interpreted serialiser's terms and branch
    conditions; the copy is the object `__copy__` returns, with its stores / setattr calls (super().__copy__ chains inlined)."""
    from . import tables
    fields = prog.module('pgpy.packet.fields')
    todo, seen = [], set()
    if roots is not None:
        # explicit domain: [(class name, what it is)] - every class is its own serialiser
        pkts = prog.module('pgpy.packet.packets')
        for cn, what in roots:
            K = fields.classes.get(cn) or pkts.classes.get(cn)
            if K is None:
                raise AnalysisError('material class %s not found' % cn)
            if K.name not in seen:
                seen.add(K.name)
                todo.append((K, K, what))
        tbl = {}
    else:
        f, tbl = tables.keymaterial_table(prog)
    for (pub, a), cn in sorted(tbl.items(), key=lambda kv: (not kv[0][0], kv[1])):
        K = fields.classes.get(cn)
        if K is None:
            raise AnalysisError('key material class %s not found' % cn)
        if K.name not in seen:
            seen.add(K.name)
            sib = fields.classes.get(tbl.get((True, a))) if not pub else K
            todo.append((K, sib, 'key material'))
    # the container chosen for algorithms without a key material class is copied (and fingerprinted) like any other
    fb = tables.keymaterial_fallbacks(prog) if roots is None else {}
    for pub in ((True, False) if roots is None else ()):
        K = fields.classes.get(fb[pub])
        if K is None:
            raise AnalysisError('fallback key material class %s not found' % fb[pub])
        if K.name not in seen:
            seen.add(K.name)
            todo.append((K, fields.classes.get(fb[True]) if not pub else K, 'key material of an unimplemented algorithm'))
    n = 0
    while todo:
        K, reads_of, what = todo.pop(0)
        R = _serialised_attrs(prog, reads_of if reads_of is not None else K)
        if R is None:
            continue
        # field classes held in the serialised attributes (self.p = ECPoint(..)) are copied attribute-wise by the same chain
        for c in K.mro():
            for m in c.methods.values():
                p0 = m.params[0] if m.params else None
                for x in ast.walk(m.node):
                    if isinstance(x, ast.Assign) and isinstance(x.value, ast.Call) and len(x.targets) == 1 and \
                            isinstance(x.targets[0], ast.Attribute) and isinstance(x.targets[0].value, ast.Name) and \
                            x.targets[0].value.id == p0 and x.targets[0].attr in R:
                        fc = prog.resolve_class_expr(m.module, x.value.func)
                        if fc is not None and fc.name not in seen:
                            seen.add(fc.name)
                            todo.append((fc, None, 'field of %s.%s' % (K.name, x.targets[0].attr)))
        cp = K.find_method('__copy__')
        if cp is None:
            rep.ok(rid, '%s.__copy__' % K.name, 'no __copy__: the default shallow copy carries every attribute (%s)' % what)
            n += 1
            continue
        kmro = K.mro()
        pol = lambda fi, kmro=kmro: fi.cls is not None and fi.cls in kmro and fi.name not in ('__bytearray__', 'to_mpibytes', '__len__', '__init__')  # noqa: E731
        first = cp.params[0]
        outs = [s for s in Interp(prog, Scenario(self_cls=K, inline=pol, max_depth=4)).run(cp) if not s.raised]
        if not outs:
            raise AnalysisError('%s.__copy__ never returns' % K.name)
        mpis = None
        for s in outs:
            X = render(s.ret)
            carried = {}
            for p, v, l, _ in s.stores:
                if p.startswith(X + '.') and '.' not in p[len(X) + 1:]:
                    carried[p[len(X) + 1:]] = v
            for c in s.calls:
                if c[0] == 'setattr' and len(c[1]) == 3 and c[1][0] == X:
                    name, val = c[1][1], c[1][2]
                    m = re.match(r"^'(\w+)'$", name)
                    if m:
                        carried[m.group(1)] = val
                    elif s.bound.get(name) == first + '.__mpis__' and _strip_copy(val) == 'getattr(%s, %s)' % (first, name):
                        if mpis is None:
                            mpis = _mpis_names(prog, K) or []
                        for a in mpis:
                            carried.setdefault(a, '%s.%s' % (first, a))
            def _carried(a):
                if _strip_copy(carried.get(a)) == '%s.%s' % (first, a):
                    return True
                slot = _property_slot(K, a)      # `x` read through a property whose getter returns self._x: carrying _x carries x
                return slot is not None and _strip_copy(carried.get(slot)) == '%s.%s' % (first, slot)
            bad = sorted(a for a in R if not _carried(a))
            n += 1
            rep.check(not bad, rid, '%s.__copy__' % K.name,
                      'copy carries %s%s' % (sorted(R), '; NOT carried from the source: %s' % ['%s = %s' % (a, carried.get(a)) for a in bad] if bad else ''),
                      'a copy must serialise to the same octets as its source (%s %s): every attribute the serialiser reads '
                      'must be carried over from the source object, not recomputed or defaulted'
                      % (what, 'enters the fingerprint' if roots is None else 'is exported with the key'), where=cp.where,
                      expected={a: '%s.%s' % (first, a) for a in sorted(R)}, found={a: carried.get(a) for a in sorted(R)},
                      detail='copy carries every serialised attribute %s from the source (%s)' % (sorted(R), what))
    return n


def _bind_call(fi, call):
    """{parameter name: argument text} of a recorded call (func_text, [args], {kw}, ...) to the function `fi`: positional and
    keyword spellings of the same call give the same binding."""
    params = list(fi.params)
    if fi.cls is not None and not any(dotted(d) == 'staticmethod' for d in fi.node.decorator_list):
        params = params[1:]
    b = dict(zip(params, call[1]))
    b.update(call[2])
    if '**' in b or '*' in b or any(a.startswith('*') for a in call[1]):
        # f(*seq) / f(**mapping): which slot a value reaches is not modelled - never guess
        raise AnalysisError('call of %s at line %s passes */** arguments: argument binding not modelled' % (fi.qualname, call[3]))
    return b


def join_alternatives(text):
    """The alternatives of a value joined over the arms of an undecided `if` (JOIN(a | b), nested), else [text]."""
    if not (text.startswith('JOIN(') and text.endswith(')')):
        return [text]
    inner, d, parts, cur = text[5:-1], 0, [], ''
    i = 0
    while i < len(inner):
        ch = inner[i]
        if ch in '([{':
            d += 1
        elif ch in ')]}':
            d -= 1
            if d < 0:
                return [text]          # the closing bracket of JOIN( is not the last character's partner
        if d == 0 and inner.startswith(' | ', i):
            parts.append(cur)
            cur = ''
            i += 3
            continue
        cur += ch
        i += 1
    parts.append(cur)
    out = []
    for p_ in parts:
        out.extend(join_alternatives(p_))
    return out


def hex_decoded(text):
    """X if `text` denotes the octets whose hexadecimal spelling is the str X (the idioms are equivalent on hex digits), else None."""
    m = re.match(r'^(?:binascii\.)?(?:unhexlify|a2b_hex)\((.+)\)$', text or '')
    if m:
        inner = m.group(1)
        m2 = re.match(r"^(.+)\.encode\((?:'(?:latin-1|latin1|iso-8859-1|ascii|us-ascii|utf-8|utf8)')?\)$", inner)
        return m2.group(1) if m2 else inner
    m = re.match(r'^(?:bytes|bytearray)\.fromhex\((.+)\)$', text or '')
    return m.group(1) if m else None


def check_ids_rooted_at_self(rep, prog, rid):
    """Issuer key id, issuer fingerprint, recipient key id and the key material used all come from the method's own `self`.

    Decided on interpreter call / store events (values, not source text): what matters is the value that reaches the issuer /
    `_issuer_fpr` / encrypter / algorithm slot on every path that writes it, and the receiver of the signing / session-key call.
    Temporaries, keyword-vs-positional arguments, merged or nested conditions and statement order do not matter."""
    K = 'pgpy.pgp'
    KEYID, FPR, ALG, MAT = 'self.fingerprint.keyid', 'self.fingerprint', 'self.key_algorithm', 'self._key'
    nf = prog.method(K, 'PGPSignature', 'new')
    np_ = [p for p in nf.params[1:]]          # (sigtype, pkalg, halg, signer, created) whatever they are called
    if len(np_) < 4:
        raise AnalysisError('PGPSignature.new: signature changed (%s)' % nf.params)
    P_TYPE, P_ALG, P_SIGNER = np_[0], np_[1], np_[3]
    kcls = prog.cls(K, 'PGPKey')
    addnew = prog.cls('pgpy.packet.fields', 'SubPackets').find_method('addnew')
    if addnew is None:
        raise AnalysisError('SubPackets.addnew vanished')
    a_params = addnew.params[1:]

    def is_new_site(n):
        return isinstance(n, ast.Call) and (dotted(n.func) or '').split('.')[-2:] == ['PGPSignature', 'new']

    # ---- issuer key id and algorithm at every place a new signature is started
    meths = ['sign', 'certify', 'revoke', 'revoker', 'bind']
    meths += sorted(m for m, f in kcls.methods.items() if m not in meths and any(is_new_site(n) for n in ast.walk(f.node)))
    for meth in meths:
        f = prog.method(K, 'PGPKey', meth)
        rep.saw(fn=f)
        outs = Interp(prog, Scenario(inline=noinline, join_unknown=True)).run(f)
        seen = {}
        for s in outs:
            for c in s.calls:
                if c[0] == 'PGPSignature.new':
                    b = _bind_call(nf, c)
                    seen.setdefault((c[3], b.get(P_ALG), b.get(P_SIGNER)), c)
        reached = set(id(c[4]) for c in seen.values())
        for n in ast.walk(f.node):
            if is_new_site(n) and id(n) not in reached:
                raise AnalysisError('PGPKey.%s: PGPSignature.new at line %d is not reached by the interpreter' % (meth, n.lineno))
        if not seen and meth in ('sign', 'certify', 'revoke', 'revoker', 'bind'):
            raise AnalysisError('PGPKey.%s no longer starts a signature with PGPSignature.new' % meth)
        for (line, alg, signer), c in sorted(seen.items(), key=lambda kv: kv[0][0]):
            rep.check(alg == ALG and signer == KEYID, rid, 'PGPKey.%s' % meth,
                      'PGPSignature.new(%s=%s, %s=%s)' % (P_ALG, alg, P_SIGNER, signer), 'the issuer id and algorithm written must be those of the key that signs (self)',
                      where='%s:%d' % (f.module.relpath, line), expected='(.., %s, .., %s)' % (ALG, KEYID), found=[alg, signer])
    # ---- PGPSignature.new records what it is given
    rep.saw(fn=nf)
    n_ok = 0
    for s in Interp(prog, Scenario(inline=noinline)).run(nf):
        if s.raised:
            continue
        n_ok += 1
        wrapper = render(s.ret)
        pkts = [v for p, v, l, _ in s.stores if p == wrapper + '._signature']
        pkt = pkts[-1] if pkts else None
        st = {}
        for p, v, l, _ in s.stores:
            st.setdefault(p, []).append(v)
        issuer = [_bind_call(addnew, c) for c in s.calls if pkt is not None and c[0] == pkt + '.subpackets.addnew' and
                  (c[1][0] if c[1] else c[2].get(a_params[0])) == "'Issuer'"]
        ok = pkt is not None and st.get(pkt + '.pubalg') == [P_ALG] and st.get(pkt + '.sigtype') == [P_TYPE] and \
            len(issuer) == 1 and issuer[0].get('_issuer') == P_SIGNER
        rep.check(ok, rid, 'PGPSignature.new', 'issuer/pubalg/sigtype stored', 'the new signature records the given issuer id, algorithm and type',
                  where=nf.where, expected='packet.pubalg = %s, packet.sigtype = %s, Issuer subpacket _issuer = %s' % (P_ALG, P_TYPE, P_SIGNER),
                  found='packet %s: pubalg %s, sigtype %s, Issuer %s' % (pkt, st.get('%s.pubalg' % pkt), st.get('%s.sigtype' % pkt),
                                                                          issuer))
    if not n_ok:
        raise AnalysisError('PGPSignature.new never returns')
    # ---- _sign: issuer fingerprint and key material
    f = prog.method(K, 'PGPKey', '_sign')
    rep.saw(fn=f)
    fpr, signs, sinks, rcpts = {}, {}, {}, {}
    returning = 0
    for s in Interp(prog, Scenario(inline=noinline, join_unknown=True)).run(f):
        returning += 0 if s.raised else 1
        for c in s.calls:
            last = c[0].split('.')[-1]
            if last == 'addnew':
                if (c[1][0] if c[1] else c[2].get(a_params[0])) == "'IntendedRecipient'":
                    b = _bind_call(addnew, c)
                    val = b.get('intended_recipient')
                    # the element of the caller's intended_recipients the value is rooted at (a bound variable of the path)
                    # (an if / elif that picks `<r>.fingerprint` or `<r>` before one shared call joins the two values)
                    ms = [re.match(r'^(\$[\d.]+(?:_\d+)*)(\.fingerprint)?$', a) for a in join_alternatives(val or '')]
                    var = ms[0].group(1) if ms and all(ms) and len(set(m.group(1) for m in ms)) == 1 else None
                    rcpts.setdefault((c[3], val), (var, s.bound.get(var) if var else None))
                if (c[1][0] if c[1] else c[2].get(a_params[0])) == "'IssuerFingerprint'":
                    b = _bind_call(addnew, c)
                    fpr.setdefault((c[3], b.get('_issuer_fpr'), b.get('_version'), b.get(a_params[1]) if len(a_params) > 1 else None), c)
            elif last == 'sign' and c[0].endswith('._key.sign'):
                signs.setdefault((c[3], c[0]), c)
            elif last == 'from_signer':
                sinks.setdefault((c[3], (c[1] + [None])[0]), c)
    if not returning:
        raise AnalysisError('PGPKey._sign never returns')
    rep.check(len(fpr) >= 1, rid, 'PGPKey._sign', 'IssuerFingerprint sites %d' % len(fpr), 'expected an issuer-fingerprint subpacket', where=f.where)
    for (line, val, ver, hashed), c in sorted(fpr.items(), key=lambda kv: kv[0][0]):
        rep.check(val == FPR and ver == '4' and hashed == 'True', rid, 'PGPKey._sign',
                  'IssuerFingerprint(_issuer_fpr=%s, _version=%s, hashed=%s)' % (val, ver, hashed),
                  'the issuer fingerprint written must be the fingerprint of the key that signs (self)',
                  where='%s:%d' % (f.module.relpath, line), expected='_issuer_fpr=%s' % FPR, found={'_issuer_fpr': val, '_version': ver, 'hashed': hashed})
    # intended recipients named in the signature are the keys the caller named: <element>.fingerprint (or the element, if it is
    # a Fingerprint already) of the `intended_recipients` option itself - not a key derived from it
    opts = f.node.args.kwarg.arg if f.node.args.kwarg is not None else None
    rep.check(len(rcpts) >= 1, rid, 'PGPKey._sign', 'IntendedRecipient sites %d' % len(rcpts), 'expected the intended-recipient subpackets', where=f.where)
    for (line, val), (var, coll) in sorted(rcpts.items(), key=lambda kv: kv[0][0]):
        from_option = var is not None and coll is not None and opts is not None and \
            re.match(r"^(?:(?:list|tuple|iter)\()*%s(\.pop\(|\.get\(|\[)'intended_recipients'" % re.escape(opts), coll) is not None
        rep.check(from_option, rid, 'PGPKey._sign', 'IntendedRecipient(intended_recipient=%s) over %s' % (val, coll),
                  'the fingerprint written into an Intended Recipient subpacket must be that of the key the caller named (the element of '
                  'intended_recipients itself), not of a key derived from it', where='%s:%d' % (f.module.relpath, line),
                  expected='<r>.fingerprint for r in intended_recipients', found=val)
    recv = sorted(set(k[1] for k in signs))
    rep.check(recv == [MAT + '.sign'], rid, 'PGPKey._sign', 'signing call %s' % recv,
              'the signature must be made with the key material of self', where=f.where, expected=MAT + '.sign', found=recv)
    made = sorted(set(str(k[1]) for k in sinks))
    rep.check(bool(made) and all(m.startswith(MAT + '.sign(') for m in made), rid, 'PGPKey._sign', 'signature octets stored: %s' % [m[:40] for m in made],
              'the signature stored in the packet must be the one made with the key material of self', where=f.where,
              expected='from_signer(%s.sign(..))' % MAT, found=made)
    # ---- encrypt: recipient id and key material
    f = prog.method(K, 'PGPKey', 'encrypt')
    rep.saw(fn=f)
    outs = Interp(prog, Scenario(inline=noinline, join_unknown=True, bind={'message.is_encrypted': Const(False)})).run(f)
    n_ok = 0
    for s in outs:
        if s.raised:
            continue
        n_ok += 1
        # the session-key packet is the object whose recipient id is written (whatever the local is called)
        pk = sorted(set(p[:-len('.encrypter')] for p, v, l, _ in s.stores if p.endswith('.encrypter')))
        enc = [v for p, v, l, _ in s.stores if p.endswith('.encrypter')]
        alg = [v for p, v, l, _ in s.stores if len(pk) == 1 and p == pk[0] + '.pkalg']
        esk = [c for c in s.calls if c[0].split('.')[-1] == 'encrypt_sk']
        rep.check(len(pk) == 1 and bool(enc) and all(hex_decoded(v) == KEYID for v in enc) and alg == [ALG], rid, 'PGPKey.encrypt',
                  'recipient id %s alg %s' % (enc, alg), 'the recipient key id and algorithm written must be those of the key that encrypts (self)',
                  where=f.where, expected='unhexlify(%s), %s' % (KEYID, ALG), found='%s / %s' % (enc, alg))
        rep.check(len(esk) == 1 and len(pk) == 1 and esk[0][0] == pk[0] + '.encrypt_sk' and esk[0][1][:1] == [MAT], rid, 'PGPKey.encrypt',
                  'encrypt_sk(%s...)' % (esk[0][1][:1] if esk else None),
                  'the session key must be encrypted to the key material of self', where=f.where)
    if not n_ok:
        raise AnalysisError('PGPKey.encrypt never returns')


RFC_HASH_IDS = {'MD5': 1, 'SHA1': 2, 'RIPEMD160': 3, 'SHA256': 8, 'SHA384': 9, 'SHA512': 10, 'SHA224': 11}
RFC_PK_IDS = {'RSAEncryptOrSign': 1, 'RSAEncrypt': 2, 'RSASign': 3, 'ElGamal': 16, 'DSA': 17, 'ECDH': 18, 'ECDSA': 19,
              'FormerlyElGamalEncryptOrSign': 20, 'DiffieHellman': 21, 'EdDSA': 22}


def check_algorithm_ids(rep, prog, rid):
    """Hash and public-key algorithm ids against RFC 4880 9.1 / 9.4, RFC 6637 5 and the EdDSA draft (independent oracle): these
    octets are hashed in every signature trailer and written into every key, signature and session-key packet."""
    for cname, table, what in (('HashAlgorithm', RFC_HASH_IDS, 'hash'), ('PubKeyAlgorithm', RFC_PK_IDS, 'public-key')):
        ci = prog.cls('pgpy.constants', cname)
        mem = ci.enum_members()
        bad = {k: (mem.get(k), v) for k, v in table.items() if mem.get(k) != v}
        rep.check(not bad, rid, cname, 'ids %s' % (bad or 'all RFC values'), '%s algorithm ids must be the RFC values' % what, where=ci.where,
                  expected={k: v for k, v in table.items() if k in bad}, found={k: v[0] for k, v in bad.items()})
    h = prog.cls('pgpy.constants', 'HashAlgorithm')
    f = h.methods.get('hasher')
    for s in Interp(prog, Scenario(inline=noinline)).run(f):
        rep.check(render(s.ret) in ('hashlib.new(self.name)', 'HASHER(self.name;)'), rid, 'HashAlgorithm.hasher', render(s.ret),
                  'the hasher is a fresh hashlib object of the algorithm\'s own name', where=f.where)
