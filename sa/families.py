"""Rule families shared by several properties."""
import ast
import re

from .interp import Interp, Scenario, Sym, Const, Bytes, render
from .loader import AnalysisError, dotted

noinline = lambda f: False  # noqa: E731


def class_attr_names(ci):
    """Attribute names an instance of ci certainly has: methods, properties, and `self.x = ...` in any __init__ along the MRO."""
    names = set()
    for c in ci.mro():
        names.update(k for k in c.methods if not k.endswith('.setter'))
        names.update(c.props)
        names.update(c.plain_props)
        names.update(c.attrs)
        init = c.methods.get('__init__')
        if init is not None:
            for n in ast.walk(init.node):
                if isinstance(n, ast.Attribute) and isinstance(n.ctx, ast.Store) and isinstance(n.value, ast.Name) and \
                        n.value.id == init.params[0]:
                    names.add(n.attr)
    return names


def check_operation_wiring(rep, prog, rid):
    """One cipher_algo and one session key reach the ESK packet and the container, in both encrypt operations."""
    for cls, esk_key_index, esk_alg in (('PGPMessage', 1, None), ('PGPKey', 2, 1)):
        fi = prog.method('pgpy.pgp', cls, 'encrypt')
        rep.saw(fn=fi)
        for given in (False, True):
            args = {'sessionkey': Sym('sessionkey', nonnull=True) if given else Const(None)}
            sc = Scenario(args=args, bind={'self.is_encrypted': Const(False), 'message.is_encrypted': Const(False)}, inline=noinline)
            for s in Interp(prog, sc).run(fi):
                if s.raised:
                    continue
                esk = [c for c in s.calls if c[0].split('.')[-1] == 'encrypt_sk']
                data = [c for c in s.calls if c[0].endswith('.encrypt') and c[0].split('.')[-2:-1] == ['skedata']]
                scen = '%s.encrypt, session key %s' % (cls, 'supplied' if given else 'generated')
                if len(esk) != 1 or len(data) != 1:
                    rep.violation(rid, '%s.encrypt' % cls, '%d ESK / %d container encryptions' % (len(esk), len(data)),
                                  'expected one session-key packet and one container encryption', where=fi.where, scenario=scen)
                    continue
                k1 = esk[0][1][esk_key_index] if len(esk[0][1]) > esk_key_index else None
                k2, alg2 = (data[0][1] + [None, None])[:2]
                ok = k1 == k2 and k1 is not None
                if esk_alg is not None:
                    ok = ok and esk[0][1][esk_alg] == alg2
                else:
                    enc = [v for p, v, l, _ in s.stores if p.endswith('.s2k.encalg')]
                    ok = ok and enc == [alg2]
                rep.check(ok, rid, '%s.encrypt' % cls, '%s: ESK(key=%s) container(key=%s, cipher=%s)' % (scen, k1, k2, alg2),
                          'the session key and cipher recorded in the session-key packet must be the ones the container is encrypted with',
                          where=fi.where, scenario=scen)
                # the plaintext is the serialised message
                pt = data[0][1][2] if len(data[0][1]) > 2 else None
                want = 'self.__bytes__()' if cls == 'PGPMessage' else 'message.__bytes__()'
                rep.check(pt in (want, want.replace('__bytes__', '__bytearray__')), rid, '%s.encrypt' % cls, '%s: plaintext %s' % (scen, pt), 'the container holds the whole serialised message',
                          where=fi.where, expected=want, found=pt, scenario=scen)


def check_sessionkey_consumers(rep, prog, rid):
    """Every iteration over a `_sessionkeys` list either filters by isinstance or touches only attributes common to both packet classes."""
    pk = prog.cls('pgpy.packet.packets', 'PKESessionKeyV3')
    sk = prog.cls('pgpy.packet.packets', 'SKESessionKeyV4')
    common = class_attr_names(pk) & class_attr_names(sk)
    n = 0
    for fn in prog.all_functions():
        for node in ast.walk(fn.node):
            gens = []
            if isinstance(node, (ast.GeneratorExp, ast.ListComp, ast.SetComp, ast.DictComp)):
                for g in node.generators:
                    gens.append((g.target, g.iter, [node.elt if not isinstance(node, ast.DictComp) else node.value] + list(g.ifs), g.ifs))
            elif isinstance(node, ast.For):
                gens.append((node.target, node.iter, list(node.body), []))
            for target, it, uses, ifs in gens:
                if '_sessionkeys' not in ast.unparse(it) or not isinstance(target, ast.Name):
                    continue
                # an inner generator may already have filtered
                pre_filtered = 'isinstance' in ast.unparse(it)
                var = target.id
                n += 1
                touched = set()
                for u in uses:
                    for x in ast.walk(u):
                        if isinstance(x, ast.Attribute) and isinstance(x.value, ast.Name) and x.value.id == var:
                            touched.add(x.attr)
                specific = sorted(a for a in touched if a not in common)
                filt = pre_filtered or any(isinstance(c, ast.Call) and dotted(c.func) == 'isinstance' and c.args and
                                           isinstance(c.args[0], ast.Name) and c.args[0].id == var
                                           for i in ifs for c in ast.walk(i))
                # the isinstance test must come first in an `and` chain so that it guards the attribute reads
                first_ok = True
                for i in ifs:
                    if isinstance(i, ast.BoolOp) and isinstance(i.op, ast.And):
                        f0 = i.values[0]
                        if specific and not (isinstance(f0, ast.Call) and dotted(f0.func) == 'isinstance'):
                            first_ok = False
                rep.check(not specific or (filt and first_ok), rid, fn.qualname, 'iteration over %s touching %s' % (ast.unparse(it)[:50], specific),
                          'a message can carry public-key and passphrase session-key packets at once; class-specific fields %s are read '
                          'without an isinstance filter' % specific, where='%s:%d' % (fn.module.relpath, node.lineno),
                          expected='isinstance(%s, <class>) filter' % var, found=ast.unparse(node)[:160])
    return n


def check_pkesk_selection(rep, prog, rid):
    fi = prog.method('pgpy.pgp', 'PGPKey', 'decrypt')
    outs = Interp(prog, Scenario(bind={'message.is_encrypted': Const(True)}, inline=noinline,
                                 axioms={'(self.fingerprint.keyid not in message.encrypters)': False})).run(fi)
    for s in outs:
        dsk = [c for c in s.calls if c[0].endswith('.decrypt_sk')]
        if not dsk:
            rep.violation(rid, 'PGPKey.decrypt', 'no decrypt_sk call', 'the key never recovers a session key', where=fi.where)
            continue
        t = dsk[0][0][:-len('.decrypt_sk')]
        _m = re.search(r'EACH\((\$\d+) in message\._sessionkeys if (.*);\1\)', t)
        _v = _m.group(1) if _m else '$1'
        _c = (_m.group(2) if _m else '').replace(' ', '')
        conj = bool(_m) and all(x in _c for x in ('isinstance(%s,PKESessionKey)' % _v, '%s.pkalg==self.key_algorithm' % _v)) and \
            any(x in _c for x in ('%s.encrypter==self.fingerprint.keyid' % _v, 'self.fingerprint.keyid==%s.encrypter' % _v)) and ' or ' not in _m.group(2)
        rep.check(conj, rid, 'PGPKey.decrypt', 'session-key packet selection %s' % t[:140],
                  'with several recipients the packet used must be the one addressed to this key id (and algorithm)', where=fi.where,
                  expected='isinstance(pk, PKESessionKey) and pk.pkalg == self.key_algorithm and pk.encrypter == self.fingerprint.keyid',
                  found=t)


def check_hash_object(rep, prog, rid, construct, text, S, where, scenario=None):
    """The hash object handed to the key material must be the `cryptography` hash named like the signature's hash algorithm.
    `text` is the interpreter's value text of the argument (locals already resolved); S the text of the signature object.  The
    algorithm may be read through the PGPSignature property or the packet field it returns (C05.5 pins that getter)."""
    algs = ['%s.hash_algorithm' % S, '%s._signature.halg' % S]
    direct = ['getattr(hashes, %s.name)()' % a for a in algs]
    if text in direct:
        rep.ok(rid, construct, 'hash object %s' % text, scenario=scenario)
        return True
    m = None
    for a in algs:
        m = m or re.match(r'^%s\.([A-Za-z_][A-Za-z0-9_]*)(\(\))?$' % re.escape(a), text or '')
    if not m:
        rep.violation(rid, construct, 'hash argument %s' % text,
                      'the hash object must be built from the hash algorithm of the signature being processed', where=where,
                      expected=direct[0], found=text, scenario=scenario)
        return False
    ci = prog.cls('pgpy.constants', 'HashAlgorithm')
    g = ci.methods.get(m.group(1))
    if g is None:
        raise AnalysisError('HashAlgorithm.%s not found' % m.group(1))
    from . import tables
    ds = tables.dict_literals(g.node)
    if len(ds) != 1:
        raise AnalysisError('HashAlgorithm.%s: cannot read its lookup table' % m.group(1))
    d = next(iter(ds.values()))
    ok = True
    for k, v in zip(d.keys, d.values):
        kn = (dotted(k) or ast.unparse(k)).split('.')[-1]
        vv = v.func if isinstance(v, ast.Call) else v
        vn = (dotted(vv) or ast.unparse(vv)).split('.')[-1]
        if kn != vn:
            ok = False
            rep.violation(rid, 'HashAlgorithm.%s' % m.group(1), 'table entry %s -> %s' % (kn, vn),
                          'hash algorithm %s is mapped to the different hash function %s' % (kn, vn), where=g.where,
                          expected='%s -> hashes.%s' % (kn, kn), found='%s -> %s' % (kn, ast.unparse(v)), scenario=scenario)
    if ok:
        rep.ok(rid, construct, 'hash object via identity table HashAlgorithm.%s' % m.group(1), scenario=scenario)
    return ok


def check_cipher_tables(rep, prog, rid):
    """Symmetric cipher ids and key sizes against the RFC 4880 9.2 / RFC 5581 table (independent oracle)."""
    from . import tables
    ci = prog.cls('pgpy.constants', 'SymmetricKeyAlgorithm')
    mem = ci.enum_members()
    want_ids = {'Plaintext': 0, 'IDEA': 1, 'TripleDES': 2, 'CAST5': 3, 'Blowfish': 4, 'AES128': 7, 'AES192': 8, 'AES256': 9,
                'Twofish256': 10, 'Camellia128': 11, 'Camellia192': 12, 'Camellia256': 13}
    bad = {k: (mem.get(k), v) for k, v in want_ids.items() if mem.get(k) != v}
    rep.check(not bad, rid, 'SymmetricKeyAlgorithm', 'ids %s' % bad, 'cipher ids must be the RFC 4880 9.2 / RFC 5581 values', where=ci.where,
              found=bad)
    ks = tables.table(ci.methods['key_size'].node)
    want_ks = {'IDEA': 128, 'TripleDES': 192, 'CAST5': 128, 'Blowfish': 128, 'AES128': 128, 'AES192': 192, 'AES256': 256,
               'Twofish256': 256, 'Camellia128': 128, 'Camellia192': 192, 'Camellia256': 256}
    got = {k.split('.')[-1]: int(v) for k, v in ks.items()}
    rep.check(got == want_ks, rid, 'SymmetricKeyAlgorithm.key_size', 'key sizes %s' % {k: v for k, v in got.items() if want_ks.get(k) != v},
              'cipher key sizes must be the RFC values (a generated session key has this many bits)',
              where=ci.methods['key_size'].where, expected=want_ks, found=got)
    # the cipher class each id is bound to
    cf = ci.methods.get('cipher')
    ct = tables.table(cf.node)
    want_c = {'IDEA': 'algorithms.IDEA', 'TripleDES': 'algorithms.TripleDES', 'CAST5': 'algorithms.CAST5', 'Blowfish': 'algorithms.Blowfish',
              'AES128': 'algorithms.AES', 'AES192': 'algorithms.AES', 'AES256': 'algorithms.AES', 'Camellia128': 'algorithms.Camellia',
              'Camellia192': 'algorithms.Camellia', 'Camellia256': 'algorithms.Camellia'}
    gotc = {k.split('.')[-1]: v for k, v in ct.items() if k.split('.')[-1] in want_c}
    rep.check(gotc == want_c, rid, 'SymmetricKeyAlgorithm.cipher', 'cipher classes', 'each cipher id must be bound to its own block cipher',
              where=cf.where, expected=want_c, found=gotc)


def check_pubkey_derivation(rep, prog, rid):
    """PrivKeyV4.pubkey(): the public packet is built from public classes and from copies of the private packet's own
    public terms (created, algorithm, public fields, curve id, KDF parameters) - nothing else, nothing recomputed."""
    from .sigdata import enum_const
    fi = prog.method('pgpy.packet.packets', 'PrivKeyV4', 'pubkey')
    rep.saw(fn=fi)
    # loops: only over the public field names of the private material
    for n in ast.walk(fi.node):
        if isinstance(n, ast.For):
            it = ast.unparse(n.iter)
            rep.check(it == 'self.keymaterial.__pubfields__', rid, 'PrivKeyV4.pubkey', 'loop over %s' % it,
                      'only the public field names may be copied into the public packet', where='%s:%d' % (fi.module.relpath, n.lineno),
                      expected='for pm in self.keymaterial.__pubfields__', found=it)
    secret_words = ('__privfields__', '__mpis__', 's2k', 'encbytes', 'chksum', '__privkey__')
    for alg, extra in (('RSAEncryptOrSign', {}), ('DSA', {}), ('ECDSA', {'oid': 'self.keymaterial.oid'}), ('EdDSA', {'oid': 'self.keymaterial.oid'}),
                       ('ECDH', {'oid': 'self.keymaterial.oid', 'kdf': ('copy.copy(self.keymaterial.kdf)', 'self.keymaterial.kdf')})):
        sc = Scenario(inline=noinline, bind={'self.pkalg': enum_const(prog, 'PubKeyAlgorithm', alg)})
        outs = Interp(prog, sc).run(fi)
        for s in outs:
            ctor = [c[0] for c in s.calls if c[0] in ('PubKeyV4', 'PubSubKeyV4', 'PrivKeyV4', 'PrivSubKeyV4', 'PubKey', 'PrivKey')]
            rep.check(bool(ctor) and set(ctor) <= {'PubKeyV4', 'PubSubKeyV4'}, rid, 'PrivKeyV4.pubkey', '%s: constructs %s' % (alg, sorted(set(ctor))),
                      'the public twin must be a public-key packet class', where=fi.where, scenario=alg)
            pk = render(s.ret)
            got = {}
            for p, v, l, _ in s.stores:
                if p.startswith(pk + '.'):
                    got[p[len(pk) + 1:]] = v
            for c in s.calls:
                if c[0] == 'setattr' and len(c[1]) == 3 and c[1][0] == pk + '.keymaterial':
                    got['keymaterial.<%s>' % c[1][1]] = c[1][2]
            want = {'created': ('self.created',), 'pkalg': ('PubKeyAlgorithm.%s' % alg, 'self.pkalg'),
                    'keymaterial.<$1>': ('copy.copy(getattr(self.keymaterial, $1))', 'getattr(self.keymaterial, $1)')}      # $1: the loop's field name
            for k, v in extra.items():
                want['keymaterial.%s' % k] = v if isinstance(v, tuple) else (v,)
            for k, vals in want.items():
                rep.check(got.get(k) in vals, rid, 'PrivKeyV4.pubkey', '%s: public %s = %s' % (alg, k, got.get(k)),
                          'the public twin\'s %s must be a copy of the private packet\'s own value (same fingerprint, same behaviour)' % k,
                          where=fi.where, expected=vals[0], found=got.get(k), scenario=alg)
            for k, v in got.items():
                rep.check(k in want and not any(w in v for w in secret_words), rid, 'PrivKeyV4.pubkey', '%s: extra/secret store %s = %s' % (alg, k, v),
                          'nothing but the public terms may be put into the public packet', where=fi.where, scenario=alg)
            rep.check(any(c[0] == pk + '.update_hlen' for c in s.calls), rid, 'PrivKeyV4.pubkey', '%s: update_hlen' % alg,
                      'the public packet length must be recomputed', where=fi.where, scenario=alg)


def check_ids_rooted_at_self(rep, prog, rid):
    """Issuer key id, issuer fingerprint, recipient key id and the key material used all come from the method's own `self`."""
    K = 'pgpy.pgp'
    # issuer key id at every PGPSignature.new call
    for meth in ('sign', 'certify', 'revoke', 'revoker', 'bind'):
        f = prog.method(K, 'PGPKey', meth)
        for n in ast.walk(f.node):
            if isinstance(n, ast.Call) and dotted(n.func) == 'PGPSignature.new':
                a = [ast.unparse(x) for x in n.args]
                rep.check(len(a) >= 4 and a[1] == 'self.key_algorithm' and a[3] == 'self.fingerprint.keyid', rid, 'PGPKey.%s' % meth,
                          'PGPSignature.new(%s)' % ', '.join(a), 'the issuer id and algorithm written must be those of the key that signs (self)',
                          where='%s:%d' % (f.module.relpath, n.lineno), expected='(.., self.key_algorithm, .., self.fingerprint.keyid)', found=a)
    nf = prog.method(K, 'PGPSignature', 'new')
    src = ast.unparse(nf.node)
    rep.check("addnew('Issuer', _issuer=signer)" in src and 'sigpkt.pubalg = pkalg' in src and 'sigpkt.sigtype = sigtype' in src, rid,
              'PGPSignature.new', 'issuer/pubalg/sigtype stored', 'the new signature records the given issuer id, algorithm and type', where=nf.where)
    # _sign: issuer fingerprint and key material
    f = prog.method(K, 'PGPKey', '_sign')
    fpr = [n for n in ast.walk(f.node) if isinstance(n, ast.Call) and isinstance(n.func, ast.Attribute) and n.func.attr == 'addnew' and
           n.args and isinstance(n.args[0], ast.Constant) and n.args[0].value == 'IssuerFingerprint']
    rep.check(len(fpr) == 1, rid, 'PGPKey._sign', 'IssuerFingerprint sites %d' % len(fpr), 'expected one issuer-fingerprint subpacket', where=f.where)
    for n in fpr:
        kw = {k.arg: ast.unparse(k.value) for k in n.keywords}
        rep.check(kw.get('_issuer_fpr') == 'self.fingerprint' and kw.get('_version') == '4' and kw.get('hashed') == 'True', rid, 'PGPKey._sign',
                  'IssuerFingerprint(%s)' % kw, 'the issuer fingerprint written must be the fingerprint of the key that signs (self)',
                  where='%s:%d' % (f.module.relpath, n.lineno), expected='_issuer_fpr=self.fingerprint', found=kw)
    signs = [n for n in ast.walk(f.node) if isinstance(n, ast.Call) and ast.unparse(n.func).endswith('_key.sign')]
    rep.check([ast.unparse(n.func) for n in signs] == ['self._key.sign'], rid, 'PGPKey._sign', 'signing call %s' % [ast.unparse(n.func) for n in signs],
              'the signature must be made with the key material of self', where=f.where)
    # encrypt: recipient id and key material
    f = prog.method(K, 'PGPKey', 'encrypt')
    outs = Interp(prog, Scenario(inline=noinline, join_unknown=True, bind={'message.is_encrypted': Const(False)})).run(f)
    for s in outs:
        if s.raised:
            continue
        enc = [v for p, v, l, _ in s.stores if p == 'pkesk.encrypter']
        alg = [v for p, v, l, _ in s.stores if p == 'pkesk.pkalg']
        esk = [c for c in s.calls if c[0] == 'pkesk.encrypt_sk']
        rep.check(enc == ["binascii.unhexlify(self.fingerprint.keyid.encode('latin-1'))"] and alg == ['self.key_algorithm'], rid, 'PGPKey.encrypt',
                  'recipient id %s alg %s' % (enc, alg), 'the recipient key id and algorithm written must be those of the key that encrypts (self)',
                  where=f.where, expected='unhexlify(self.fingerprint.keyid), self.key_algorithm', found='%s / %s' % (enc, alg))
        rep.check(len(esk) == 1 and esk[0][1][:1] == ['self._key'], rid, 'PGPKey.encrypt', 'encrypt_sk(%s...)' % (esk[0][1][:1] if esk else None),
                  'the session key must be encrypted to the key material of self', where=f.where)
        break


RFC_HASH_IDS = {'MD5': 1, 'SHA1': 2, 'RIPEMD160': 3, 'SHA256': 8, 'SHA384': 9, 'SHA512': 10, 'SHA224': 11}
RFC_PK_IDS = {'RSAEncryptOrSign': 1, 'RSAEncrypt': 2, 'RSASign': 3, 'ElGamal': 16, 'DSA': 17, 'ECDH': 18, 'ECDSA': 19,
              'FormerlyElGamalEncryptOrSign': 20, 'DiffieHellman': 21, 'EdDSA': 22}


def check_algorithm_ids(rep, prog, rid):
    """Hash and public-key algorithm ids against RFC 4880 9.1 / 9.4, RFC 6637 5 and the EdDSA draft (independent oracle): these
    octets are hashed in every signature trailer and written into every key, signature and session-key packet."""
    for cname, table, what in (('HashAlgorithm', RFC_HASH_IDS, 'hash'), ('PubKeyAlgorithm', RFC_PK_IDS, 'public-key')):
        ci = prog.cls('pgpy.constants', cname)
        mem = ci.enum_members()
        bad = {k: (mem.get(k), v) for k, v in table.items() if mem.get(k) != v}
        rep.check(not bad, rid, cname, 'ids %s' % (bad or 'all RFC values'), '%s algorithm ids must be the RFC values' % what, where=ci.where,
                  expected={k: v for k, v in table.items() if k in bad}, found={k: v[0] for k, v in bad.items()})
    h = prog.cls('pgpy.constants', 'HashAlgorithm')
    f = h.methods.get('hasher')
    for s in Interp(prog, Scenario(inline=noinline)).run(f):
        rep.check(render(s.ret) in ('hashlib.new(self.name)', 'HASHER(self.name;)'), rid, 'HashAlgorithm.hasher', render(s.ret),
                  'the hasher is a fresh hashlib object of the algorithm\'s own name', where=f.where)
