"""E1 - byte-term abstract interpreter (BTI).

An abstract interpreter over function bodies.  Byte-valued expressions are interpreted in the free monoid over
*terms* (constants, fixed-width integers, single octets, opaque symbols, slices, hashes, loops); scalars are
constants / enum members / opaque symbols.  Control flow is followed under a *scenario* (a finite set of facts:
bindings of symbolic paths to abstract values, type tags, axioms); a test the scenario cannot decide forks
the path.  Nothing is executed: the result is, per path, the term each variable / return value / yield denotes,
plus the ordered list of calls and attribute stores seen on that path (used as def-use / provenance facts).

This is dataflow over a term domain, not symbolic execution: no constraints are collected and no solver is used.
"""
import ast
import copy as _copy
import re

from .loader import AnalysisError, ClassInfo, FunctionInfo, dotted

MAX_PATHS = 96


# --------------------------------------------------------------------------------------------- values
class Val(object):
    pass


class Enum(object):
    """An enum member known from the class table."""
    __slots__ = ('cls', 'member', 'value')

    def __init__(self, cls, member, value):
        self.cls, self.member, self.value = cls, member, value

    def __eq__(self, o):
        return isinstance(o, Enum) and (self.cls, self.member) == (o.cls, o.member) or \
            (not isinstance(o, Enum) and self.value == o and not isinstance(o, bool))

    def __hash__(self):
        return hash(self.value)

    def __repr__(self):
        return '%s.%s' % (self.cls, self.member)

    def __lt__(self, o):
        return self.value < (o.value if isinstance(o, Enum) else o)

    def __ge__(self, o):
        return self.value >= (o.value if isinstance(o, Enum) else o)

    def __gt__(self, o):
        return self.value > (o.value if isinstance(o, Enum) else o)

    def __le__(self, o):
        return self.value <= (o.value if isinstance(o, Enum) else o)


class Const(Val):
    def __init__(self, value):
        self.value = value

    def __repr__(self):
        return 'Const(%r)' % (self.value,)


class Sym(Val):
    """Opaque value identified by its normalised expression text.  May carry a class (for dispatch) and
    type tags (for isinstance) and facts (nonnull...)."""
    def __init__(self, text, cls=None, types=None, attrs=None, nonnull=False):
        self.text = text
        self.cls = cls
        self.types = types          # set of type names this value is an instance of (closed world) or None
        self.attrs = attrs or {}    # attribute name -> Val (scenario facts such as is_uid -> Const(True))
        self.nonnull = nonnull
        self.skel = None            # boolean skeleton when the value is the result of a test (flag variables: ok = a == b)

    def __repr__(self):
        return 'Sym(%s)' % self.text


def _is_const(v):
    return isinstance(v, Const) or (isinstance(v, ListV) and all(_is_const(e) for e in v.elems))


class Bytes(Val):
    """Concatenation of items.  Items are tuples:
       ('C', bytes) ('INT', width, text) ('BYTE', text) ('SYM', text) ('SLICE', inner_render, lo, hi)
       ('HASH', alg, [items]) ('EACH', var, coll, [items]) ('REP', [items], ntext) ('ALT', [[items], ...])"""
    def __init__(self, items=None):
        self.items = list(items or [])

    def __repr__(self):
        return 'Bytes(%s)' % render_items(self.items)


class Hasher(Val):
    def __init__(self, alg, items=None):
        self.alg = alg
        self.items = list(items or [])


class ListV(Val):
    def __init__(self, elems=None, kind='list'):
        self.elems = list(elems or [])
        self.kind = kind


class Obj(Val):
    """A locally constructed repo object (e.g. mdc = MDC()); attribute stores are kept in env under its name."""
    def __init__(self, name, cls, text=None):
        self.name = name
        self.cls = cls
        self.text = text or ('%s()' % (cls.name if cls else '?'))


class EachV(Val):
    """Elements appended to a list once per iteration of a summarised loop."""
    def __init__(self, var, coll, elems):
        self.var, self.coll, self.elems = var, coll, list(elems)


class DictV(Sym):
    """A dict literal with constant keys: still an opaque symbol by its text, but lookups by a constant key are decided."""
    def __init__(self, text, pairs):
        Sym.__init__(self, text)
        self.pairs = pairs          # [(Const key, Val value)]

    def lookup(self, key):
        """-> value Val, None when the key is certainly absent, or False when undecidable."""
        if not _is_const(key):
            return False
        for k, v in self.pairs:
            try:
                if (k.value == key.value) if isinstance(k, Const) and isinstance(key, Const) else \
                        (not isinstance(k, Const) and not isinstance(key, Const) and render(k) == render(key)):      # constant tuples
                    return v
            except Exception:
                return False
        return None


class FuncV(Val):
    def __init__(self, fi, closure_env=None):
        self.fi = fi
        self.closure_env = closure_env


class ClassV(Val):
    def __init__(self, ci):
        self.ci = ci


class LambdaV(Sym):
    """A lambda expression: renders as its source text (like any opaque symbol) but can be applied when it is called by name."""
    def __init__(self, text, fi, closure_env):
        Sym.__init__(self, text)
        self.fi = fi
        self.closure_env = closure_env


# --------------------------------------------------------------------------------------------- rendering
def _hex(b):
    return ''.join('%02x' % c for c in b)


def merge_consts(items):
    out = []
    for it in items:
        if it[0] == 'C':
            if not it[1]:
                continue
            if out and out[-1][0] == 'C':
                out[-1] = ('C', out[-1][1] + it[1])
                continue
        out.append(it)
    return out


def render_item(it):
    k = it[0]
    if k == 'C':
        return 'C(%s)' % _hex(it[1])
    if k == 'INT':
        t = it[2]
        if t.startswith('len(') and t.endswith(')') and _balanced(t[4:-1]):
            return 'LEN(%s;%s)' % (it[1], t[4:-1])
        return 'INT(%s;%s)' % (it[1], t)
    if k == 'BYTE':
        return 'BYTE(%s)' % it[1]
    if k == 'SYM':
        return it[1]
    if k == 'SLICE':
        inner = it[1] if isinstance(it[1], str) else render_items(it[1])
        return 'SLICE(%s;%s;%s)' % (inner, it[2], it[3])
    if k == 'HASH':
        return 'HASH(%s;%s)' % (it[1], render_items(it[2]))
    if k == 'EACH':
        return 'EACH(%s in %s;%s)' % (it[1], it[2], render_items(it[3]))
    if k == 'REP':
        return 'REP(%s;%s)' % (render_items(it[1]), it[2])
    if k == 'ALT':
        return 'ALT(%s)' % ' | '.join(render_items(a) for a in it[1])
    return repr(it)


def _balanced(s):
    d = 0
    for ch in s:
        if ch in '([{':
            d += 1
        elif ch in ')]}':
            d -= 1
            if d < 0:
                return False
    return d == 0


def _split_filter(text):
    """`coll if cond` -> (coll, cond) at the FIRST ` if ` outside every bracket; (text, None) when there is none.  A collection
    that is itself a summarised comprehension (`[EACH($1 in xs if c;..)]`) keeps its own filter inside its brackets."""
    depth = 0
    for i, ch in enumerate(text):
        if ch in '([{':
            depth += 1
        elif ch in ')]}':
            depth -= 1
        elif ch == ' ' and depth == 0 and text.startswith(' if ', i):
            return text[:i], text[i + 4:]
    return text, None


def render_items(items):
    return ' '.join(render_item(i) for i in merge_consts(items))


def tokens(items):
    return [render_item(i) for i in merge_consts(items)]


def render(v):
    """Normalised text of any value (used inside opaque symbol texts)."""
    if isinstance(v, Const):
        val = v.value
        if isinstance(val, Enum):
            return repr(val)
        if isinstance(val, (bytes, bytearray)):
            return 'C(%s)' % _hex(bytes(val))
        return repr(val)
    if isinstance(v, Sym):
        return v.text
    if isinstance(v, Bytes):
        return render_items(v.items) if v.items else "C()"
    if isinstance(v, Hasher):
        return 'HASHER(%s;%s)' % (v.alg, render_items(v.items))
    if isinstance(v, ListV):
        br = '[]' if v.kind == 'list' else '()' if v.kind == 'tuple' else '{}'
        return br[0] + ', '.join(render(e) for e in v.elems) + (',' if v.kind == 'tuple' and len(v.elems) == 1 else '') + br[1]
    if isinstance(v, Obj):
        return v.text if v.name.startswith('<new') else v.name
    if isinstance(v, EachV):
        return 'EACH(%s in %s;%s)' % (v.var, v.coll, ', '.join(render(e) for e in v.elems))
    if isinstance(v, FuncV):
        return '<fn %s>' % v.fi.qualname
    if isinstance(v, ClassV):
        return v.ci.name
    return repr(v)


def as_items(v):
    """Coerce a value to byte items."""
    if isinstance(v, Bytes):
        return list(v.items)
    if isinstance(v, EachV):
        inner = []
        for e in v.elems:
            inner.extend(as_items(e))
        return [('EACH', v.var, v.coll, inner)]
    if isinstance(v, Const):
        if isinstance(v.value, (bytes, bytearray)):
            return [('C', bytes(v.value))]
        if isinstance(v.value, str):
            return [('SYM', repr(v.value))]
        return [('SYM', render(v))]
    return [('SYM', render(v))]


# --------------------------------------------------------------------------------------------- linear texts / slice algebra
def _strip_parens(t):
    t = t.strip()
    while t.startswith('(') and t.endswith(')'):
        d = 0
        for i, ch in enumerate(t):
            if ch in '([{':
                d += 1
            elif ch in ')]}':
                d -= 1
                if d == 0 and i < len(t) - 1:
                    return t
        t = t[1:-1].strip()
    return t


def lin_parse(t):
    """'(a + (b - 2))' -> ({'a': 1, 'b': 1}, -2): integer-linear form over opaque atoms (texts)."""
    t = _strip_parens(t)
    try:
        return {}, int(t)
    except ValueError:
        pass
    d = 0
    split = None
    for i in range(len(t) - 1, -1, -1):
        ch = t[i]
        if ch in ')]}':
            d += 1
        elif ch in '([{':
            d -= 1
        elif d == 0 and ch in '+-' and i >= 2 and t[i - 1] == ' ' and i + 1 < len(t) and t[i + 1] == ' ':
            # a lower-precedence operator to the left? (none: + and - are the lowest we render) -> split here
            split = i
            break
    if split is not None:
        # make sure no other top-level operator of lower/equal precedence class mixes in (e.g. '<<', '|', 'if')
        left, right = t[:split - 1], t[split + 2:]
        if not re.search(r' (<<|>>|\||&|\^|if|and|or|==|!=|<|>|<=|>=|in|is) ', _toplevel(t)):
            a, b = lin_parse(left), lin_parse(right)
            sign = 1 if t[split] == '+' else -1
            terms = dict(a[0])
            for k, v in b[0].items():
                terms[k] = terms.get(k, 0) + sign * v
            return {k: v for k, v in terms.items() if v != 0}, a[1] + sign * b[1]
    if t.startswith('-') and not t[1:2].isspace():
        inner = lin_parse(t[1:])
        return {k: -v for k, v in inner[0].items()}, -inner[1]
    return {t if _atomic(t) else '(%s)' % t: 1}, 0


def _toplevel(t):
    out, d = [], 0
    for ch in t:
        if ch in '([{':
            d += 1
        elif ch in ')]}':
            d -= 1
        out.append(ch if d == 0 else '_')
    return ''.join(out)


def _atomic(t):
    return ' ' not in _toplevel(t)


def lin_render(terms, const):
    pos = sorted(k for k, v in terms.items() if v > 0)
    neg = sorted(k for k, v in terms.items() if v < 0)
    parts = []
    for k in pos:
        parts.append(('+', k if terms[k] == 1 else '(%d * %s)' % (terms[k], k)))
    for k in neg:
        parts.append(('-', k if terms[k] == -1 else '(%d * %s)' % (-terms[k], k)))
    if const > 0 or (const == 0 and not parts):
        parts.append(('+', str(const)))
    elif const < 0:
        parts.append(('-', str(-const)))
    if parts[0][0] == '-':
        if len(parts) == 1 and not terms:
            return '-%s' % parts[0][1]
        # lead with a positive part when there is one, else render as negation
        head = next((p for p in parts if p[0] == '+'), None)
        if head is not None:
            parts.remove(head)
            parts.insert(0, head)
        else:
            return '-%s' % lin_render({k: -v for k, v in terms.items()}, -const)
    out = parts[0][1]
    for sgn, txt in parts[1:]:
        out += ' %s %s' % (sgn, txt)
    return out if len(parts) == 1 else '(%s)' % out


def lin_add(a, b, sign=1):
    """Canonical text of a + b (or a - b); '' counts as 0."""
    ta, tb = lin_parse(a or '0'), lin_parse(b or '0')
    terms = dict(ta[0])
    for k, v in tb[0].items():
        terms[k] = terms.get(k, 0) + sign * v
    return lin_render({k: v for k, v in terms.items() if v != 0}, ta[1] + sign * tb[1])


def lin_norm(t):
    if t == '':
        return ''
    terms, c = lin_parse(t)
    return lin_render(terms, c)


def _pos(t):
    """'' -> ('O',) ; negative integer -> ('E', k) (k octets before the end) ; otherwise ('S', text) from the start."""
    if t == '':
        return ('O',)
    terms, c = lin_parse(t)
    if not terms and c < 0:
        return ('E', -c)
    return ('S', lin_render(terms, c))


def _unpos(p, lo):
    if p[0] == 'O':
        return ''
    if p[0] == 'E':
        return str(-p[1])
    return '' if (lo and p[1] == '0') else p[1]


def compose_slice(a, b, c, d):
    """X[a:b][c:d] == X[lo:hi] under the in-bounds reading (every index lies inside the octets it addresses).
    Returns (lo, hi) texts or None when the two cannot be merged."""
    A, B, C, D = _pos(a), _pos(b), _pos(c), _pos(d)
    # lower bound
    if C[0] == 'O':
        lo = A
    elif C[0] == 'S':
        if A[0] == 'O':
            lo = C
        elif A[0] == 'S':
            lo = ('S', lin_add(A[1], C[1]))
        else:
            ct, cc = lin_parse(C[1])
            if ct or cc >= A[1]:
                return None
            lo = ('E', A[1] - cc)
    else:
        if B[0] == 'O':
            lo = C
        elif B[0] == 'E':
            lo = ('E', B[1] + C[1])
        else:
            lo = ('S', lin_add(B[1], str(C[1]), -1))
    # upper bound
    if D[0] == 'O':
        hi = B
    elif D[0] == 'S':
        if A[0] == 'O':
            hi = D
        elif A[0] == 'S':
            hi = ('S', lin_add(A[1], D[1]))
        else:
            dt, dc = lin_parse(D[1])
            if dt or dc > A[1]:
                return None
            hi = ('O',) if dc == A[1] else ('E', A[1] - dc)
    else:
        if B[0] == 'O':
            hi = D
        elif B[0] == 'E':
            hi = ('E', B[1] + D[1])
        else:
            hi = ('S', lin_add(B[1], str(D[1]), -1))
    return _unpos(lo, True), _unpos(hi, False)


def mk_slice(inner, lo, hi):
    """The item for inner[lo:hi]; a slice of a slice is flattened (canonical form shared by `del buf[:n]` consumption,
    nested slicing and offset arithmetic).  `inner` is a list of items or a rendered text."""
    lo, hi = lin_norm(lo), lin_norm(hi)
    if lo == '0':
        lo = ''
    if isinstance(inner, str) and hi == 'len(%s)' % inner:
        hi = ''                      # x[a:len(x)] is x[a:]
    if isinstance(inner, list):
        its = merge_consts(inner)
        if len(its) == 1 and its[0][0] == 'SLICE':
            r = compose_slice(its[0][2], its[0][3], lo, hi)
            if r is not None:
                return ('SLICE', its[0][1], r[0], r[1])
        inner = its
    return ('SLICE', inner, lo, hi)


def sl(base, *ranges):
    """Rendered canonical text of base[lo1:hi1][lo2:hi2]...  (for rule expectations: spelling-independent)."""
    it = None
    for lo, hi in ranges:
        it = mk_slice([it] if it is not None else base, str(lo), str(hi))
    return render_item(it)


# --------------------------------------------------------------------------------------------- state
class State(object):
    def __init__(self):
        self.env = {}
        self.calls = []      # (func_text, [arg texts], {kw: text}, lineno, node)
        self.stores = []     # (target_text, value_text, lineno, value Val)
        self.yields = []     # Val
        self.facts = []      # (cond_text, bool) decisions taken by forking
        self.ret = None
        self.raised = None   # text of raised exception
        self.events = []     # ordered mixed events: ('call'|'store'|'yield'|'raise'|'return'|'del', ...)
        self.hashes = []     # (alg, items, lineno) for every digest taken on this path
        self.bound = {}      # canonical bound-variable name ($k) -> text of the collection it ranges over
        self.filters = {}    # canonical bound-variable name ($k) -> filter text fused into its iteration (`for x in (y for y in C if f)`)
        self.loops = {}      # $k of a summarised loop -> (iterable text incl. fused filter, [(facts taken, {local: value}, new calls, status)])

    def fork(self):
        s = State()
        s.env = {k: _clone(v) for k, v in self.env.items()}
        s.calls = list(self.calls)
        s.stores = list(self.stores)
        s.yields = list(self.yields)
        s.facts = list(self.facts)
        s.events = list(self.events)
        s.hashes = list(self.hashes)
        s.bound = dict(self.bound)
        s.filters = dict(self.filters)
        s.loops = dict(self.loops)
        s.ret = self.ret
        s.raised = self.raised
        return s


def _clone(v):
    if isinstance(v, Bytes):
        return Bytes(v.items)
    if isinstance(v, Hasher):
        return Hasher(v.alg, v.items)
    if isinstance(v, ListV):
        return ListV([_clone(e) for e in v.elems], v.kind)
    if isinstance(v, EachV):
        return EachV(v.var, v.coll, [_clone(e) for e in v.elems])
    return v


class Scenario(object):
    """Finite facts a path depends on."""
    def __init__(self, name='', bind=None, axioms=None, inline=None, inline_props=None, max_depth=3, self_cls=None,
                 args=None, unroll=None, oracle=None, forward_stores=True, model_del=True, join_unknown=False,
                 canonical_objs=False, decide_filters=False, raises=None, extended=False):
        self.name = name
        self.bind = bind or {}            # dotted path -> Val
        self.axioms = axioms or {}        # normalised condition text -> bool
        self.inline = inline              # callable(FunctionInfo) -> bool, or None = default policy
        self.inline_props = inline_props or set()
        self.max_depth = max_depth
        self.self_cls = self_cls
        self.args = args or {}            # parameter name -> Val
        self.unroll = unroll or {}        # iterable text -> list of Vals
        self.oracle = oracle              # callable(condition text) -> bool | None  (scenario facts given as a predicate)
        self.forward_stores = forward_stores   # False for parse methods: attribute stores go through property setters
        self.model_del = model_del        # del buf[:n] rebinds buf to the remaining octets (False for reader-sequence extraction)
        self.join_unknown = join_unknown  # undecided `if`: run both arms and join the normal exits (call/store sets are united)
        self.canonical_objs = canonical_objs   # locally constructed objects are named <Class> / <Class#k> instead of after their local variable
        self.extended = extended          # opt-in value models whose result TEXT differs from the opaque rendering other rules read:
                                          # lookups in dict displays with constant keys are decided, <int>.to_bytes(n, 'big') is INT(n; x)
        self.decide_filters = decide_filters   # comprehension filters the scenario decides are applied (True: dropped, False: empty result)
        self.raises = raises              # callable(call text) -> exception text | None: calls the scenario says raise (the statement
                                          # ends the path with status 'raise' in the state reached so far; an enclosing try may catch it)


HASHLIB_CTORS = ('md5', 'sha1', 'sha224', 'sha256', 'sha384', 'sha512', 'sha3_224', 'sha3_256', 'sha3_384', 'sha3_512', 'blake2b', 'blake2s')

BUILTIN_TYPES = {'str', 'bytes', 'bytearray', 'int', 'bool', 'list', 'tuple', 'set', 'dict', 'NoneType', 'datetime',
                 'timedelta'}


class CallRaises(Exception):
    """A call the scenario declares as raising (Scenario.raises) was evaluated."""
    def __init__(self, text):
        Exception.__init__(self, text)
        self.text = text


class Interp(object):
    def __init__(self, program, scenario=None):
        self.prog = program
        self.sc = scenario or Scenario()
        self.paths_explored = 0
        self.unresolved_calls = 0
        self.resolved_calls = 0
        self.notes = []

    frame_cls = None     # hook: a rule may substitute a Frame subclass (e.g. path-exact loops) for the top-level function

    # ------------------------------------------------------------------ entry
    def run(self, fi, self_val=None, args=None, depth=0):
        """Interpret function `fi`.  Returns list of final States (one per path)."""
        st = State()
        params = fi.params
        node = fi.node
        args = dict(args or {})
        pos = list(params)
        is_static = any(dotted(d) in ('staticmethod',) for d in node.decorator_list)
        is_classm = any(dotted(d) in ('classmethod',) for d in node.decorator_list)
        if fi.cls is not None and not is_static and pos:
            first = pos.pop(0)
            if self_val is None:
                cls = self.sc.self_cls or fi.cls
                self_val = ClassV(cls) if is_classm else Sym(first, cls=cls, nonnull=True)
            st.env[first] = self_val
        # defaults
        defaults = node.args.defaults
        for name, d in zip(pos[len(pos) - len(defaults):], defaults):
            st.env[name] = None  # placeholder, filled below
        for i, name in enumerate(pos):
            if name in args:
                st.env[name] = args[name]
            elif name in self.sc.args and depth == 0:
                st.env[name] = self.sc.args[name]
            else:
                st.env[name] = Sym(name)
        for a in node.args.kwonlyargs:
            st.env[a.arg] = args.get(a.arg, self.sc.args.get(a.arg, Sym(a.arg)) if depth == 0 else Sym(a.arg))
        if node.args.vararg:
            st.env[node.args.vararg.arg] = args.get('*', Sym('*' + node.args.vararg.arg))
        if node.args.kwarg:
            st.env[node.args.kwarg.arg] = args.get('**', Sym(node.args.kwarg.arg))
        if depth == 0:
            for k, v in self.sc.bind.items():
                st.env[k] = v
        frame = (self.frame_cls or Frame)(self, fi, depth)
        outs = frame.block(node.body, st)
        finals = []
        for s, status in outs:
            finals.append(s)
        self.paths_explored += len(finals)
        return finals


class Frame(object):
    def __init__(self, interp, fi, depth):
        self.I = interp
        self.prog = interp.prog
        self.sc = interp.sc
        self.fi = fi
        self.module = fi.module
        self.depth = depth
        # bound variables of summarised loops / comprehensions get canonical names $1, $2, ... (source order of the binding
        # construct within the function; $<depth>.<k> inside an inlined callee); State.bound maps the name to its collection
        self.bindex = {}
        k = 0
        for n in _preorder(fi.node):
            if isinstance(n, (ast.For, ast.While)):
                k += 1
                self.bindex[id(n)] = k
            elif isinstance(n, ast.comprehension):
                k += 1
                self.bindex[id(n)] = k

    # ------------------------------------------------------------------ statements
    def block(self, stmts, st):
        """Execute statements; returns list of (state, status) with status in normal/return/raise/break/continue."""
        cur = [(st, 'normal')]
        for stmt in stmts:
            nxt = []
            for s, status in cur:
                if status != 'normal':
                    nxt.append((s, status))
                    continue
                nxt.extend(self.stmt(stmt, s))
            if len(nxt) > MAX_PATHS:
                raise AnalysisError('path explosion (> %d paths) in %s' % (MAX_PATHS, self.fi.qualname))
            cur = nxt
        return cur

    def stmt(self, node, st):
        m = getattr(self, 'st_' + type(node).__name__, None)
        if m is None:
            self.I.notes.append('unmodelled statement %s in %s' % (type(node).__name__, self.fi.qualname))
            return [(st, 'normal')]
        if self.sc.raises is None:
            return m(node, st)
        try:
            return m(node, st)
        except CallRaises as ex:
            st.raised = ex.text
            st.events.append(('raise', ex.text, getattr(node, 'lineno', 0)))
            return [(st, 'raise')]

    def st_Pass(self, node, st):
        return [(st, 'normal')]

    st_Import = st_ImportFrom = st_Global = st_Nonlocal = st_Pass

    def st_Expr(self, node, st):
        if isinstance(node.value, ast.Constant):
            return [(st, 'normal')]     # docstring
        if isinstance(node.value, (ast.Yield, ast.YieldFrom)):
            v = self.ev(node.value.value, st) if node.value.value is not None else Const(None)
            if isinstance(node.value, ast.YieldFrom):
                if isinstance(v, ListV) and not any(isinstance(e, EachV) for e in v.elems):
                    for e in v.elems:          # `yield from <known sequence>` yields its elements one by one
                        st.yields.append(e)
                        st.events.append(('yield', render(e), node.lineno))
                    return [(st, 'normal')]
                v = Sym('*' + render(v))
            st.yields.append(v)
            st.events.append(('yield', render(v), node.lineno))
            return [(st, 'normal')]
        self.ev(node.value, st)
        return [(st, 'normal')]

    def st_Assert(self, node, st):
        return [(st, 'normal')]

    def st_Delete(self, node, st):
        for t in node.targets:
            st.events.append(('del', self.text(t, st), node.lineno))
            if isinstance(t, ast.Name):
                st.env.pop(t.id, None)
            elif self.sc.model_del and isinstance(t, ast.Subscript) and isinstance(t.value, ast.Name):
                # del buf[:n] / del buf[0]  on a local buffer: the buffer now denotes the remaining octets
                cur = st.env.get(t.value.id)
                if cur is None:
                    cur = Sym(t.value.id)
                n = None
                if isinstance(t.slice, ast.Slice) and t.slice.lower is None and t.slice.step is None and t.slice.upper is not None:
                    n = self.text(t.slice.upper, st)
                elif not isinstance(t.slice, ast.Slice):
                    iv = self.ev(t.slice, st)
                    if isinstance(iv, Const) and iv.value == 0:
                        n = '1'
                if n is not None:
                    inner = merge_consts(cur.items) if isinstance(cur, Bytes) else render(cur)
                    st.env[t.value.id] = Bytes([mk_slice(inner, n, '')])
        return [(st, 'normal')]

    def st_FunctionDef(self, node, st):
        st.env[node.name] = FuncV(FunctionInfo(node, self.module, None, outer=self.fi), st.env)
        return [(st, 'normal')]

    def st_ClassDef(self, node, st):
        st.env[node.name] = Sym('<localclass %s>' % node.name)
        return [(st, 'normal')]

    def st_Return(self, node, st):
        st.ret = self.ev(node.value, st) if node.value is not None else Const(None)
        st.events.append(('return', render(st.ret), node.lineno))
        return [(st, 'return')]

    def st_Raise(self, node, st):
        st.raised = self.text(node.exc, st) if node.exc is not None else 'reraise'
        st.events.append(('raise', st.raised, node.lineno))
        return [(st, 'raise')]

    def st_Break(self, node, st):
        return [(st, 'break')]

    def st_Continue(self, node, st):
        return [(st, 'continue')]

    def st_Assign(self, node, st):
        v = self.ev(node.value, st)
        if len(node.targets) > 1 and isinstance(v, Obj) and v.name.startswith('<new'):
            # a = b.c = K(): one object behind every target - name it once (after the first plain name), not per target
            nm = next((t.id for t in node.targets if isinstance(t, ast.Name)), None)
            if nm is not None:
                v = Obj(nm, v.cls, v.text)
        for t in node.targets:
            self.assign(t, v, st, node)
        return [(st, 'normal')]

    def st_AnnAssign(self, node, st):
        if node.value is not None:
            self.assign(node.target, self.ev(node.value, st), st, node)
        return [(st, 'normal')]

    def st_AugAssign(self, node, st):
        cur = self.ev(node.target, st)
        rhs = self.ev(node.value, st)
        if isinstance(node.op, ast.Add):
            v = self.add(cur, rhs)
        elif isinstance(node.op, ast.BitOr) and isinstance(node.target, ast.Name) and \
                not (isinstance(cur, Const) and isinstance(rhs, Const)):
            v = Sym('(%s | %s)' % (render(cur), render(rhs)), types=self._or_types(cur))
            v.or_self = v.types is not None
            st.events.append(('ior', render(cur), render(rhs), node.lineno))
        else:
            v = self.binop(node.op, cur, rhs)
        self.assign(node.target, v, st, node, aug=True, event_val=rhs)
        return [(st, 'normal')]

    def assign(self, target, v, st, node, aug=False, event_val=None):
        rhs = getattr(node, 'value', None)
        rhs_names = frozenset(n.id for n in ast.walk(rhs) if isinstance(n, ast.Name)) if isinstance(rhs, ast.AST) else frozenset()
        if isinstance(target, ast.Name):
            if isinstance(v, Obj) and v.name.startswith('<new'):
                oname = target.id
                if self.sc.canonical_objs and v.cls is not None:
                    k = 1 + len({x.name for x in st.env.values() if isinstance(x, Obj) and x.cls is v.cls and x.name.startswith('<' + v.cls.name)})
                    oname = '<%s>' % v.cls.name if k == 1 else '<%s#%d>' % (v.cls.name, k)
                v = Obj(oname, v.cls, v.text)
            st.env[target.id] = v
            st.events.append(('assign', target.id, render(event_val if event_val is not None else v), getattr(node, 'lineno', 0), rhs_names))
        elif isinstance(target, (ast.Tuple, ast.List)):
            if isinstance(v, ListV) and len(v.elems) == len(target.elts):
                for t, e in zip(target.elts, v.elems):
                    self.assign(t, e, st, node)
            else:
                for i, t in enumerate(target.elts):
                    self.assign(t, Sym('%s[%d]' % (render(v), i)), st, node)
        elif isinstance(target, ast.Attribute):
            path = normalise_path('%s.%s' % (self.text(target.value, st), target.attr))
            if path in self.sc.bind:
                pass                      # scenario facts are pinned: the store is recorded but does not replace the fact
            elif self.sc.forward_stores:
                st.env[path] = v
            else:
                st.env.pop(path, None)
            st.stores.append((path, render(v), node.lineno, v))
            st.events.append(('store', path, render(v), node.lineno, rhs_names))
        elif isinstance(target, ast.Subscript):
            path = self.text(target, st)
            buf = st.env.get(target.value.id) if isinstance(target.value, ast.Name) else None
            if isinstance(buf, Bytes) and isinstance(target.slice, ast.Slice) and target.slice.step is None and not aug:
                # slice assignment on a local byte buffer: buf[:0] = v inserts in front, buf[len(buf):] = v appends; any other
                # splice leaves a value the term model cannot express (marked, so that template rules answer exit 2)
                lo = self.text(target.slice.lower, st) if target.slice.lower is not None else ''
                hi = self.text(target.slice.upper, st) if target.slice.upper is not None else ''
                if lo in ('', '0') and hi == '0':
                    buf.items[:0] = as_items(v)
                elif hi == '' and lo == 'len(%s)' % render(buf):
                    buf.items.extend(as_items(v))
                else:
                    buf.items[:] = [('SYM', 'slice-assigned(%s)' % render(Bytes(buf.items)))]
            st.env[path] = v
            st.stores.append((path, render(v), node.lineno, v))
            st.events.append(('store', path, render(v), node.lineno))
        elif isinstance(target, ast.Starred):
            self.assign(target.value, v, st, node)

    def st_If(self, node, st):
        d = self.decide(node.test, st)
        if d is True:
            return self.block(node.body, st)
        if d is False:
            return self.block(node.orelse, st)
        t = self.cond_text(node.test, st)
        sk = self.cond_skel(node.test, st)
        s1, s2 = st, st.fork()
        s1.facts.append((t, True, sk))
        s2.facts.append((t, False, sk))
        outs = self.block(node.body, s1) + self.block(node.orelse, s2)
        if self.sc.join_unknown:
            normal = [s for s, status in outs if status == 'normal']
            if len(normal) > 1:
                base = normal[0]
                for s in normal[1:]:
                    for c in s.calls:
                        if c not in base.calls:
                            base.calls.append(c)
                    for c in s.stores:
                        if c not in base.stores:
                            base.stores.append(c)
                    for e in s.events:
                        if e not in base.events:
                            base.events.append(e)
                    for k in list(base.env):
                        a, b = base.env.get(k), s.env.get(k)
                        if b is None or render(a) != render(b):
                            if isinstance(a, Bytes) and isinstance(b, Bytes):
                                base.env[k] = Bytes([('ALT', [a.items, b.items])])
                            else:
                                base.env[k] = Sym('JOIN(%s | %s)' % (render(a), render(b) if b is not None else '<unbound>'))
                    for k in s.env:
                        if k not in base.env:
                            base.env[k] = s.env[k]
                base.facts = [f for f in base.facts if f in st.facts or all(f in x.facts for x in normal)]
                outs = [(base, 'normal')] + [(s, status) for s, status in outs if status != 'normal']
        return outs

    def st_With(self, node, st):
        for item in node.items:
            v = self.ev(item.context_expr, st)
            if item.optional_vars is not None:
                self.assign(item.optional_vars, Sym('with(%s)' % render(v)), st, node)
        return self.block(node.body, st)

    def st_Try(self, node, st):
        entry = st.fork()
        outs = []
        body = self.block(node.body, st)
        for s, status in body:
            if status == 'normal':
                outs.extend(self.block(node.orelse, s))
            elif status == 'raise' and node.handlers:
                # a raise inside the try may be caught: follow each handler from there
                for h in node.handlers:
                    s2 = s.fork()
                    s2.raised = None
                    s2.facts.append(('except %s' % (self.text(h.type, s2) if h.type is not None else ''), True, None))
                    if h.name:
                        s2.env[h.name] = Sym(h.name)
                    outs.extend(self.block(h.body, s2))
            else:
                outs.append((s, status))
        # exceptional entry into each handler from the try's entry state (the body may raise anywhere)
        for h in node.handlers:
            s2 = entry.fork()
            s2.facts.append(('except %s' % (self.text(h.type, s2) if h.type is not None else ''), True, None))
            if h.name:
                s2.env[h.name] = Sym(h.name)
            outs.extend(self.block(h.body, s2))
        if node.finalbody:
            fin = []
            for s, status in outs:
                for s3, st3 in self.block(node.finalbody, s):
                    fin.append((s3, status if st3 == 'normal' else st3))
            outs = fin
        return outs

    def _iter_values(self, node, st, bname=None, target=None):
        """Return a list of Vals if the iterable is statically enumerable, else None."""
        itv = self.ev(node, st)
        t = render(itv)
        self._fuse = None
        if isinstance(itv, EachV) and len(itv.elems) == 1 and isinstance(itv.elems[0], Sym) and itv.elems[0].text != itv.var \
                and bname is not None and isinstance(target, ast.Name):
            # iterating a mapping / projecting comprehension `(E(v) for v in coll if c)` is iterating coll (with the filter)
            # with the loop variable bound to E(v): `for x in (g for k, g in coll if c)` = `for k, g in coll: if c: x = g`
            roots = set(re.findall(r'\$[\d.]+', itv.var))
            if len(roots) == 1 and (itv.var in roots or re.match(r'^\((%s_\d+(, )?)+\)$' % re.escape(next(iter(roots))), itv.var)):
                pat = re.escape(next(iter(roots))) + r'(?!\d)(?!\.\d)'
                self._fuse = (re.sub(pat, bname, itv.var), Sym(re.sub(pat, bname, itv.elems[0].text), nonnull=True))
                return None, re.sub(pat, bname, itv.coll)
        if isinstance(itv, EachV) and len(itv.elems) == 1 and isinstance(itv.elems[0], Sym) and itv.elems[0].text == itv.var \
                and bname is not None and re.match(r'^\$[\d.]+$', itv.var):
            # iterating a (filtered) identity comprehension is iterating the underlying collection (with the filter)
            t = re.sub(re.escape(itv.var) + r'(?![\d_])(?!\.\d)', bname, itv.coll)
            return None, t
        # list(X) / tuple(X) / iter(X) as an iteration source yields the elements of X (a snapshot differs only under mutation)
        _m = re.match(r'^(?:list|tuple|iter)\((.*)\)$', t)
        if _m and isinstance(itv, Sym) and _balanced(_m.group(1)) and ', ' not in _toplevel(_m.group(1)):
            t = _m.group(1)
        if t in self.sc.unroll:
            return self.sc.unroll[t], t
        if isinstance(itv, ListV) and len(itv.elems) <= 12:
            if any(isinstance(e, Sym) and e.text.startswith('*') for e in itv.elems):
                return None, t          # (a, *rest): the starred part has unknown length - summarise
            return itv.elems, t
        if isinstance(itv, Const) and isinstance(itv.value, (tuple, list, bytes, bytearray)) and len(itv.value) <= 12:
            return [Const(x) for x in itv.value], t
        return None, t

    def st_For(self, node, st):
        vals, colltext = self._iter_values(node.iter, st, self._bname(node), node.target)
        if vals is not None and isinstance(node.target, (ast.Tuple, ast.List)) and any(isinstance(v, EachV) for v in vals):
            vals = None     # a summarised segment of unknown length cannot be destructured element-wise: summarise this loop too
        if vals is not None:
            cur = [(st, 'normal')]
            for v in vals:
                nxt = []
                for s, status in cur:
                    if status != 'normal':
                        nxt.append((s, status))
                        continue
                    self.assign(node.target, v, s, node)
                    for s2, st2 in self.block(node.body, s):
                        if st2 == 'continue':
                            st2 = 'normal'
                        nxt.append((s2, st2))
                cur = nxt
            res = []
            for s, status in cur:
                if status == 'break':
                    res.append((s, 'normal'))
                elif status == 'normal':
                    res.extend(self.block(node.orelse, s))
                else:
                    res.append((s, status))
            return res
        return self._summarise_loop(node, st, colltext, None, node.target)

    def st_While(self, node, st):
        d = self.decide(node.test, st)
        if d is False:
            return self.block(node.orelse, st)
        if d is True:
            r = self._unroll_counted_while(node, st)
            if r is not None:
                return r
        return self._summarise_loop(node, st, 'while ' + self.text(node.test, st), '_', None)

    def _unroll_counted_while(self, node, st, limit=512):
        """A while loop whose test reads only locals that hold integer constants (a counter) is followed iteration by iteration, as
        long as every iteration has one path and the test stays decided; otherwise None (the caller summarises the loop as before)."""
        names = [n.id for n in ast.walk(node.test) if isinstance(n, ast.Name)]
        if not names or not all(isinstance(st.env.get(n), Const) and type(st.env[n].value) in (int, bool) for n in names):
            return None
        cur = st.fork()
        for _ in range(limit):
            d = self.decide(node.test, cur)
            if d is False:
                outs = self.block(node.orelse, cur)
                break
            if d is not True:
                return None
            outs = self.block(node.body, cur)
            if len(outs) != 1:
                return None
            cur, status = outs[0]
            if status == 'break':
                outs = [(cur, 'normal')]
                break
            if status in ('return', 'raise'):
                break
        else:
            return None
        # the walk happened on a copy: adopt its result as this path's state
        final = []
        for s2, status in outs:
            if s2 is cur:
                st.__dict__.update(s2.__dict__)
                final.append((st, status))
            else:
                final.append((s2, status))
        return final

    def _bname(self, node):
        k = self.bindex.get(id(node), 0)
        return '$%d' % k if self.depth == 0 else '$%d.%d' % (self.depth, k)

    def _summarise_loop(self, node, st, colltext, vartext, target):
        before = st.fork()
        fuse, self._fuse = getattr(self, '_fuse', None), None
        if target is not None:
            if fuse is not None and isinstance(target, ast.Name):
                vartext = fuse[0]
                st.env[target.id] = fuse[1]
            else:
                vartext = self._assign_loopvars(target, st, node, self._bname(node))
            st.bound[self._bname(node)] = _split_filter(colltext)[0]       # the collection; a fused filter stays in the EACH text
            if _split_filter(colltext)[1] is not None:
                st.filters[self._bname(node)] = _split_filter(colltext)[1]
        nyield = len(st.yields)
        entry_env = {k: render(v) for k, v in st.env.items() if '.' not in k and '[' not in k} if target is not None else {}
        body = self.block(node.body, st)
        if getattr(self.sc, 'loop_observer', None) is not None:
            # rules that reason about one iteration (which paths skip / attach / file) see the paths before they are merged
            self.sc.loop_observer(self, node, colltext, vartext, before, body)
        outs = []
        normal = [s for s, status in body if status in ('normal', 'continue', 'break')]
        statuses = [status for s, status in body if status in ('normal', 'continue', 'break')]
        nfacts = len(before.facts)

        def skip_filter(contributes):
            """Paths of one iteration that add nothing to an accumulator only skip the element: `if c: continue` before the
            append, a guarding `if`, and a filtered comprehension all denote EACH(v in coll if <cond>; delta).  Returns the
            ' if <cond>' suffix for the paths that do contribute, '' when every path does, None when it cannot be expressed."""
            if all(contributes):
                return ''
            if any(stt == 'break' for stt, c in zip(statuses, contributes) if not c):
                return None                       # leaving the loop is not a filter
            return path_filter([s.facts[nfacts:] for s, c in zip(normal, contributes) if c])
        for s, status in body:
            if status in ('return', 'raise'):
                s.facts.append(('in loop over %s' % colltext, True, None))
                outs.append((s, status))
        if not normal:
            # loop body always leaves: the zero-iteration path continues
            outs.extend(self.block(node.orelse, before))
            return outs
        # merge the normal paths of one iteration into a single summarised state
        base = normal[0]
        if target is not None:
            # what each path through ONE iteration decided, bound and called (the facts themselves are dropped from the summary)
            rec = []
            for s, status in body:
                if status in ('normal', 'continue', 'break'):
                    ch = {k: render(v) for k, v in s.env.items() if '.' not in k and '[' not in k and entry_env.get(k) != render(v)}
                    rec.append(([f for f in s.facts if f not in before.facts], ch, s.calls[len(before.calls):], status))
            base.loops = dict(before.loops)
            base.loops[self._bname(node)] = (colltext, rec)
        for name, old in before.env.items():
            if isinstance(old, (Bytes, Hasher)):
                deltas = []
                for s in normal:
                    new = s.env.get(name)
                    if isinstance(new, type(old)) and new.items[:len(old.items)] == old.items:
                        deltas.append(new.items[len(old.items):])
                    else:
                        deltas.append([('SYM', 'loop-rebound(%s)' % name)])
                uniq = []
                for d in deltas:
                    if d not in uniq:
                        uniq.append(d)
                if uniq == [[]]:
                    continue
                filt = ''
                if len(uniq) == 2 and [] in uniq:
                    filt = skip_filter([d != [] for d in deltas])
                    if filt is None:
                        filt = ''
                    else:
                        uniq = [d for d in uniq if d != []]
                inner = uniq[0] if len(uniq) == 1 else [('ALT', uniq)]
                cls = type(old)
                if cls is Bytes:
                    base.env[name] = Bytes(old.items + [('EACH', vartext, colltext + filt, inner)])
                else:
                    base.env[name] = Hasher(old.alg, old.items + [('EACH', vartext, colltext + filt, inner)])
            elif isinstance(old, Const) and type(old.value) is int and vartext and \
                    all(render(s.env.get(name, old)) == '(%s + %s)' % (render(old), vartext) for s in normal):
                # total = k; for x in coll: total += x   is   k + sum(coll)
                base.env[name] = Sym('sum(%s)' % colltext if old.value == 0 else '(%d + sum(%s))' % (old.value, colltext))
            elif isinstance(old, ListV):
                grown = []
                for s in normal:
                    new = s.env.get(name)
                    grown.append(new.elems[len(old.elems):] if isinstance(new, ListV) and len(new.elems) > len(old.elems) else [])
                keys = [[render(e) for e in g] for g in grown]
                uniq = []
                for k in keys:
                    if k not in uniq:
                        uniq.append(k)
                if len(uniq) == 2 and [] in uniq:
                    filt = skip_filter([k != [] for k in keys])
                    if filt is not None:
                        g = next(g for g in grown if g)
                        base.env[name] = ListV(old.elems + [EachV(vartext, colltext + filt, g)], old.kind)
                        continue
                new = base.env.get(name)
                if isinstance(new, ListV) and len(new.elems) > len(old.elems):
                    base.env[name] = ListV(old.elems + [EachV(vartext, colltext, new.elems[len(old.elems):])], old.kind)
            elif isinstance(old, Const) and type(old.value) is int and target is not None and ' if ' not in colltext and \
                    len(body) == 1 and body[0][1] == 'normal' and render(base.env.get(name)) == '(%d + %s)' % (old.value, vartext):
                # acc = k; for x in C: acc += x   is   k + sum(C)
                base.env[name] = Sym('sum(%s)' % colltext) if old.value == 0 else Sym('(%d + sum(%s))' % (old.value, colltext))
            elif isinstance(old, Const) and isinstance(old.value, str) and target is not None:
                # text accumulated in a loop (s += piece): s + ''.join(piece for ...), if every path of the body appends the same piece
                pre = '(%s + ' % render(old)
                news = set(render(s.env.get(name)) if s.env.get(name) is not None else None for s in normal)
                new = base.env.get(name)
                if len(news) == 1 and isinstance(new, Sym) and new.text.startswith(pre) and new.text.endswith(')') and _balanced(new.text[len(pre):-1]):
                    base.env[name] = Sym("(%s + ''.join(EACH(%s in %s;%s)))" % (render(old), vartext, colltext, new.text[len(pre):-1]))
        # yields inside the loop
        ys = []
        for s in normal:
            y = [render(v) for v in s.yields[nyield:]]
            if y not in ys:
                ys.append(y)
        if ys and ys != [[]]:
            filt = ''
            if len(ys) == 2 and [] in ys:
                filt = skip_filter([bool(s.yields[nyield:]) for s in normal])
                if filt is None:
                    filt = ''
                else:
                    ys = [y for y in ys if y]
            inner = ' '.join(ys[0]) if len(ys) == 1 else 'ALT(%s)' % ' | '.join(' '.join(y) for y in ys)
            base.yields = base.yields[:nyield] + [Sym('EACH(%s in %s;%s)' % (vartext, colltext + filt, inner))]
        # calls / stores of all normal paths are kept (union, order of first path first)
        for s in normal[1:]:
            for c in s.calls:
                if c not in base.calls:
                    base.calls.append(c)
            for c in s.stores:
                if c not in base.stores:
                    base.stores.append(c)
        base.facts = [f for f in base.facts if f in before.facts]
        # locals first bound on another path of the iteration are bound after the loop as well
        for s in normal[1:]:
            for k, v in s.env.items():
                if k not in base.env:
                    base.env[k] = v
        # names (re)bound in the body but not accumulators become loop-carried symbols only if they differ
        if node.orelse and any(status == 'break' for _, status in body):
            brk = base.fork()                           # left by `break`: the else clause is skipped
            bn = self._bname(node)
            for s, status in body:                      # ... with the locals as the breaking path left them
                if status == 'break' and s is not base:
                    for k, v in s.env.items():
                        if '.' not in k and '[' not in k and not isinstance(v, (Bytes, Hasher, ListV)) and entry_env.get(k) != render(v):
                            brk.env[k] = v
            if bn in brk.loops:
                brk.loops[bn] = (brk.loops[bn][0], [r for r in brk.loops[bn][1] if r[3] == 'break'])
                base.loops[bn] = (base.loops[bn][0], [r for r in base.loops[bn][1] if r[3] != 'break'])
            outs.append((brk, 'normal'))
        outs.extend(self.block(node.orelse, base))
        return outs

    def _assign_loopvars(self, target, st, node, name):
        """Bind loop / comprehension variables to canonical names ($k[_<position>]); returns the rendered target."""
        if isinstance(target, (ast.Tuple, ast.List)):
            parts = [self._assign_loopvars(t, st, node, '%s_%d' % (name, i)) for i, t in enumerate(target.elts)]
            return '(%s)' % ', '.join(parts)
        if isinstance(target, ast.Name):
            st.env[target.id] = Sym(name, nonnull=True)
        elif isinstance(target, ast.Starred):
            return self._assign_loopvars(target.value, st, node, name)
        else:
            self.assign(target, Sym(name), st, node)
        return name

    # ------------------------------------------------------------------ decisions
    def decide(self, test, st):
        """Three-valued evaluation of a test under the scenario."""
        t = self.cond_text(test, st)
        if t in self.sc.axioms:
            return self.sc.axioms[t]
        if isinstance(test, ast.Name) and isinstance(st.env.get(test.id), Sym):
            # a local flag computed once and tested again: this path has already decided it (the other combination is infeasible)
            for f in reversed(st.facts):
                if f[0] == t and isinstance(f[1], bool) and len(f) > 2 and f[2] is not None:
                    return f[1]
        if t in ('True', 'False'):           # the test evaluated to a decided boolean (e.g. a scenario fact answered in value position)
            return t == 'True'
        if self.sc.oracle is not None and not isinstance(test, ast.BoolOp) and \
                not (isinstance(test, ast.UnaryOp) and isinstance(test.op, ast.Not)):
            o = self.sc.oracle(t)
            if o is not None:
                return o
        if isinstance(test, ast.BoolOp):
            vals = [self.decide(v, st) for v in test.values]
            if isinstance(test.op, ast.And):
                if any(v is False for v in vals):
                    return False
                if all(v is True for v in vals):
                    return True
                return None
            if any(v is True for v in vals):
                return True
            if all(v is False for v in vals):
                return False
            return None
        if isinstance(test, ast.UnaryOp) and isinstance(test.op, ast.Not):
            d = self.decide(test.operand, st)
            return None if d is None else (not d)
        if isinstance(test, ast.Compare) and len(test.ops) == 1:
            return self._compare(test, st)
        if isinstance(test, ast.Call):
            fn = dotted(test.func)
            if fn == 'isinstance' and len(test.args) == 2:
                return self._isinstance(test.args[0], test.args[1], st)
            if fn == 'bool' and len(test.args) == 1:
                return self.decide(test.args[0], st)
            if fn == 'len' and len(test.args) == 1:
                return None
        v = self.ev(test, st)
        return self.truth(v)

    def cond_text(self, test, st):
        """Normalised text of a test, built without deciding it."""
        if isinstance(test, ast.Compare):
            parts = [self.text(test.left, st)]
            for op, c in zip(test.ops, test.comparators):
                parts.append(OPS[type(op)])
                parts.append(self.text(c, st))
            return '(%s)' % ' '.join(parts)
        if isinstance(test, ast.BoolOp):
            op = ' or ' if isinstance(test.op, ast.Or) else ' and '
            return '(%s)' % op.join(self.cond_text(v, st) for v in test.values)
        if isinstance(test, ast.UnaryOp) and isinstance(test.op, ast.Not):
            return 'not %s' % self.cond_text(test.operand, st)
        return self.text(test, st)

    def cond_skel(self, test, st):
        """Boolean skeleton of a test with normalised atoms:
           ('not', s) ('and', [s..]) ('or', [s..]) ('cmp', op, left, right) ('call', func, [args]) ('expr', text)"""
        if isinstance(test, ast.BoolOp):
            return ('or' if isinstance(test.op, ast.Or) else 'and', [self.cond_skel(v, st) for v in test.values])
        if isinstance(test, ast.UnaryOp) and isinstance(test.op, ast.Not):
            return ('not', self.cond_skel(test.operand, st))
        d = self.decide(test, st)
        if d is not None:
            return ('const', d)
        if isinstance(test, ast.Compare) and len(test.ops) == 1:
            return ('cmp', OPS[type(test.ops[0])], self.text(test.left, st), self.text(test.comparators[0], st))
        if isinstance(test, ast.Call):
            sk = getattr(self.ev(test, st, quiet=True), 'skel', None)
            if sk is not None:           # an inlined helper returning a comparison / a boolean combination
                return sk
            ft = self.text(test.func, st)
            args = [self.text(a, st) for a in test.args]
            return ('call', ft, args)
        if isinstance(test, (ast.Name, ast.Attribute)):
            v = self.ev(test, st, quiet=True)
            if isinstance(v, Sym) and getattr(v, 'skel', None) is not None:
                return v.skel           # a flag that holds the result of an earlier test
        return ('expr', self.text(test, st))

    def truth(self, v):
        if isinstance(v, Const):
            val = v.value
            if isinstance(val, Enum):
                return bool(val.value)
            return bool(val)
        if isinstance(v, Bytes):
            its = merge_consts(v.items)
            if not its:
                return False
            if any(i[0] == 'C' for i in its):
                return True
            return None
        if isinstance(v, ListV):
            return bool(v.elems)
        if isinstance(v, (Obj, FuncV, ClassV)):
            return True
        return None

    def _compare(self, test, st):
        op = test.ops[0]
        l = self.ev(test.left, st)
        r = self.ev(test.comparators[0], st)
        if isinstance(op, (ast.Is, ast.IsNot)):
            neg = isinstance(op, ast.IsNot)
            if isinstance(r, Const) and r.value is None:
                if isinstance(l, Const):
                    res = l.value is None
                elif isinstance(l, (Bytes, ListV, Obj, Hasher, ClassV, FuncV, DictV)) or (isinstance(l, Sym) and l.nonnull):
                    res = False
                else:
                    return None
                return (not res) if neg else res
            if isinstance(l, Const) and isinstance(r, Const):
                res = l.value == r.value
                return (not res) if neg else res
            if render(l) == render(r):
                return not neg
            return None
        if isinstance(op, (ast.In, ast.NotIn)):
            neg = isinstance(op, ast.NotIn)
            if isinstance(r, DictV) and self.sc.extended:
                hit = r.lookup(l)
                if hit is not False:
                    return (hit is None) if neg else (hit is not None)
            if isinstance(l, Const) and isinstance(r, ListV) and all(isinstance(e, Const) for e in r.elems):
                res = any(e.value == l.value for e in r.elems)
                return (not res) if neg else res
            if isinstance(l, Const) and isinstance(r, Const) and isinstance(r.value, (str, tuple, list, set, frozenset, bytes)):
                try:
                    res = l.value in r.value
                except TypeError:
                    return None
                return (not res) if neg else res
            return None
        if isinstance(l, Const) and isinstance(r, Const):
            a, b = l.value, r.value
            try:
                if isinstance(op, ast.Eq):
                    return a == b
                if isinstance(op, ast.NotEq):
                    return not (a == b)
                if isinstance(op, ast.Lt):
                    return a < b
                if isinstance(op, ast.LtE):
                    return a <= b
                if isinstance(op, ast.Gt):
                    return a > b
                if isinstance(op, ast.GtE):
                    return a >= b
            except TypeError:
                return None
        if isinstance(op, (ast.Eq, ast.NotEq)) and not isinstance(l, Const) and not isinstance(r, Const):
            if render(l) == render(r) and isinstance(l, Sym):
                return isinstance(op, ast.Eq)
        return None

    def _type_names(self, node, st):
        if isinstance(node, ast.Tuple):
            out = []
            for e in node.elts:
                x = self._type_names(e, st)
                if x is None:
                    return None
                out.extend(x)
            return out
        if isinstance(node, ast.Call) and dotted(node.func) == 'type' and node.args and \
                isinstance(node.args[0], ast.Constant) and node.args[0].value is None:
            return ['NoneType']
        dn = dotted(node)
        if dn is None:
            return None
        return [dn]

    def _isinstance(self, objnode, typenode, st):
        v = self.ev(objnode, st)
        names = self._type_names(typenode, st)
        if names is None:
            return None
        have = None
        if isinstance(v, Const):
            val = v.value
            have = {'NoneType'} if val is None else {type(val).__name__}
            if isinstance(val, bool):
                have.add('int')
            if isinstance(val, Enum):
                have = {val.cls, 'int'}
        elif isinstance(v, Bytes):
            have = {'bytearray', 'bytes'}
        elif isinstance(v, ListV):
            have = {v.kind}
        elif isinstance(v, Obj) and v.cls is not None:
            have = {c.name for c in v.cls.mro()}
        elif isinstance(v, Sym) and v.types is not None:
            have = set()
            for t in v.types:
                have.add(t)
                for ci in self.prog.classes_by_name.get(t, []):
                    have.update(c.name for c in ci.mro())
        if have is None:
            return None
        for n in names:
            base = n.split('.')[-1]
            if base in have:
                return True
        return False

    # ------------------------------------------------------------------ expressions
    def text(self, node, st):
        if node is None:
            return 'None'
        return render(self.ev(node, st, quiet=True))

    def ev(self, node, st, quiet=False):
        m = getattr(self, 'ev_' + type(node).__name__, None)
        if m is None:
            return Sym(ast.unparse(node))
        return m(node, st)

    def ev_Constant(self, node, st):
        if isinstance(node.value, (bytes,)):
            return Bytes([('C', node.value)])
        return Const(node.value)

    def ev_Name(self, node, st):
        if node.id in st.env:
            v = st.env[node.id]
            return v
        imp = self.module.imports.get(node.id)
        if imp is not None and imp[0] in STDLIB_CANON and (imp[1] is None and imp[0] != node.id or imp[1] not in (None, node.id, '*')):
            # `import zlib as z` / `from zlib import MAX_WBITS as W`: the canonical dotted name
            return Sym(imp[0] if imp[1] is None else '%s.%s' % (imp[0], imp[1]))
        if node.id in ('True', 'False', 'None'):
            return Const({'True': True, 'False': False, 'None': None}[node.id])
        r = self.prog.lookup(self.module, node.id)
        if isinstance(r, ClassInfo):
            return ClassV(r)
        if isinstance(r, FunctionInfo):
            return FuncV(r)
        if node.id in self.module.assigns:
            try:
                return Const(ast.literal_eval(self.module.assigns[node.id]))
            except Exception:
                pass
            if isinstance(self.module.assigns[node.id], ast.Lambda):
                return self.ev_Lambda(self.module.assigns[node.id], State())      # NAME = lambda ...: a module-level function
            if isinstance(self.module.assigns[node.id], (ast.Dict, ast.Tuple, ast.List, ast.Set, ast.UnaryOp, ast.BinOp)):
                return self.ev(self.module.assigns[node.id], State(), quiet=True)   # a module-level table (e.g. {Enum.A: ClassA, ...})
        return Sym(node.id)

    def ev_Attribute(self, node, st):
        base = self.ev(node.value, st)
        bt = render(base)
        path = '%s.%s' % (bt, node.attr)
        if path in st.env:
            return st.env[path]
        if isinstance(node.value, ast.Name) and node.value.id not in st.env and \
                self.module.imports.get(node.value.id, (None, 0))[1] is None and node.value.id in self.module.imports:
            return Sym(path, nonnull=True)          # function / class of an imported module (copy.copy, hashlib.new ...)
        if isinstance(base, Sym) and node.attr in base.attrs:
            return base.attrs[node.attr]
        if self.sc.extended and isinstance(base, Const) and isinstance(base.value, Enum):
            # <enum member>.<method> read as a VALUE (stored in a table, called later): still opaque by its text, but it remembers
            # the method and the receiver so that calling it can be followed (extended scenarios only)
            for eci in self.prog.classes_by_name.get(base.value.cls, []):
                mfi = eci.find_method(node.attr)
                if mfi is not None and eci.find_prop(node.attr) is None and eci.find_plain_prop(node.attr) is None:
                    bm = Sym(path, nonnull=True)
                    bm.method = (mfi, base)
                    return bm
        if isinstance(base, ClassV):
            ci = base.ci
            av = ci.find_attr(node.attr)
            if av is not None:
                cv = self._class_collection(ci, node.attr, av, st, text=path)
                if cv is not None:
                    return cv
                members = None
                for c in ci.mro():
                    if node.attr in c.attrs:
                        members = c.enum_members()
                        break
                if members is not None and node.attr in members and self._is_enum(ci):
                    return Const(Enum(ci.name, node.attr, members[node.attr]))
                try:
                    return Const(ast.literal_eval(av))
                except Exception:
                    return Sym(path)
            f = ci.find_method(node.attr)
            if f is not None:
                return Sym(path, cls=None)
            return Sym(path)
        if node.attr == '__contains__' and isinstance(base, ListV) and base.elems and all(isinstance(e, Const) for e in base.elems):
            try:        # the bound method of a literal collection is the predicate `x in <collection>`
                lam = ast.parse('lambda _x: _x in %s' % bt, mode='eval').body
                ast.copy_location(lam, node)
                ast.fix_missing_locations(lam)
                v = self.ev_Lambda(lam, st)
                v.text = path
                return v
            except SyntaxError:
                pass
        if self.sc.extended and isinstance(base, Const) and isinstance(base.value, Enum):
            # a static method reached through an enum member (self._helper with self the member): the function itself
            for ci in self.prog.classes_by_name.get(base.value.cls, []):
                fi = ci.find_method(node.attr)
                if fi is not None and any(dotted(d) == 'staticmethod' for d in fi.node.decorator_list):
                    return FuncV(fi)
        if node.attr == 'hasher':
            return Hasher(bt)
        cls = base.cls if isinstance(base, (Sym, Obj)) else None
        if cls is not None:
            # class-level constant attribute (e.g. __pubfields__) seen through the instance
            av = cls.find_attr(node.attr)
            if av is not None and cls.find_prop(node.attr) is None:
                cv = self._class_collection(cls, node.attr, av, st, text=normalise_path(path))
                if cv is not None:
                    return cv
                try:
                    lit = ast.literal_eval(av)
                    if isinstance(lit, (tuple, list)):
                        if not lit:
                            return Sym(normalise_path(path))     # abstract default, overridden by concrete subclasses
                        return ListV([Const(x) for x in lit], 'tuple')
                    return Const(lit)
                except Exception:
                    pass
            if node.attr in self.sc.inline_props:
                pp = cls.find_prop(node.attr)
                getter = pp.getter if pp is not None else (cls.find_plain_prop(node.attr) or {}).get('get')
                if getter is not None and self.depth < self.sc.max_depth:
                    r = self._inline(getter, base, [], {}, st)
                    if r is not None:
                        return r
        return Sym(normalise_path(path))

    def _class_collection(self, cls, name, av, st, text=None):
        """Class-level NAME = {A, B} / frozenset({...}) / (A, B) of enum members, seen through an instance or the class."""
        inner = av
        if isinstance(av, ast.Call) and dotted(av.func) in ('frozenset', 'set', 'tuple', 'list') and len(av.args) == 1:
            inner = av.args[0]
        if isinstance(inner, ast.Dict) and inner.keys:
            for c in cls.mro():
                if name in c.attrs:
                    fr = Frame(self.I, FunctionInfo(ast.parse('def _f(): pass').body[0], c.module, c), self.depth)
                    dv = fr.ev(inner, State(), quiet=True)          # NAME = {Enum.A: ClassA, ...} in the class body: a lookup table
                    return dv if isinstance(dv, DictV) else None
            return None
        if not isinstance(inner, (ast.Set, ast.Tuple, ast.List)) or not inner.elts:
            return None
        owner = None
        for c in cls.mro():
            if name in c.attrs:
                owner = c
                break
        if owner is None:
            return None
        fr = Frame(self.I, FunctionInfo(ast.parse('def _f(): pass').body[0], owner.module, owner), self.depth)
        st0 = State()
        for k, v in owner.attrs.items():          # other literal constants of the class body are in scope there
            try:
                st0.env[k] = Const(ast.literal_eval(v))
            except Exception:
                pass
        elems = [fr.ev(e, st0) for e in inner.elts]
        if not all(isinstance(e, Const) for e in elems):
            return None
        return ListV(elems, 'set' if isinstance(inner, ast.Set) else 'tuple')

    def _is_enum(self, ci):
        for c in ci.mro():
            for b in c.bases:
                bn = b if isinstance(b, str) else b.name
                if bn.split('.')[-1] in ('IntEnum', 'Enum', 'IntFlag', 'FlagEnum', 'Flag'):
                    return True
        return False

    def ev_JoinedStr(self, node, st):
        # f'a{x!r:>4}b' is the value 'a{!r:>4}b'.format(x): one spelling, with the interpolated values rendered like any other
        tmpl, args = '', []
        for v in node.values:
            if isinstance(v, ast.Constant):
                tmpl += str(v.value).replace('{', '{{').replace('}', '}}')
            elif isinstance(v, ast.FormattedValue) and (v.format_spec is None or all(isinstance(x, ast.Constant) for x in v.format_spec.values)):
                spec = '' if v.format_spec is None else ''.join(str(x.value) for x in v.format_spec.values)
                tmpl += '{%s%s}' % ('!' + chr(v.conversion) if v.conversion and v.conversion > 0 else '', ':' + spec if spec else '')
                args.append(self.ev(v.value, st))
            else:
                return Sym(ast.unparse(node))
        return Sym('%r.format(%s)' % (tmpl, ', '.join(render(a) for a in args)))

    def _display(self, node, st):
        out = []
        for e in node.elts:
            if isinstance(e, ast.Starred):
                sv = self.ev(e.value, st)
                if isinstance(sv, ListV) and not any(isinstance(x, EachV) for x in sv.elems):
                    out.extend(sv.elems)            # (a, *(b, c)) is (a, b, c)
                    continue
                out.append(Sym('*' + render(sv)))
            else:
                out.append(self.ev(e, st))
        return out

    def ev_Tuple(self, node, st):
        if any(isinstance(e, ast.Starred) for e in node.elts):
            return ListV(self._display(node, st), 'tuple')
        return ListV([self.ev(e, st) for e in node.elts], 'tuple')

    def ev_List(self, node, st):
        return ListV([self.ev(e, st) for e in node.elts], 'list')

    def ev_Set(self, node, st):
        return ListV([self.ev(e, st) for e in node.elts], 'set')

    def ev_Dict(self, node, st):
        parts = []
        for k, v in zip(node.keys, node.values):
            parts.append('%s: %s' % (self.text(k, st) if k is not None else '**', self.text(v, st)))
        text = '{%s}' % ', '.join(parts)
        if node.keys:
            pairs = []
            for k, v in zip(node.keys, node.values):
                vv = self.ev(v, st, quiet=True)
                if k is None:
                    if not isinstance(vv, DictV):
                        return Sym(text)
                    pairs.extend(vv.pairs)          # {**d, ...} with a known d
                else:
                    pairs.append((self.ev(k, st, quiet=True), vv))
            if all(_is_const(k) for k, _ in pairs):
                return DictV(text, pairs)
        return Sym(text)

    def _dict_ctor(self, fname, args, kwargs):
        """dict.fromkeys(<known keys>, v) / dict([(k, v), ...]) / dict(<known dict>) with constant keys -> DictV (else None)."""
        if kwargs:
            return None
        pairs = None
        if fname == 'dict.fromkeys' and 1 <= len(args) <= 2 and isinstance(args[0], ListV):
            pairs = [(k, args[1] if len(args) == 2 else Const(None)) for k in args[0].elems]
        elif fname == 'dict' and len(args) == 1 and isinstance(args[0], DictV):
            pairs = list(args[0].pairs)
        elif fname == 'dict' and len(args) == 1 and isinstance(args[0], ListV) and \
                all(isinstance(e, ListV) and len(e.elems) == 2 for e in args[0].elems):
            pairs = [(e.elems[0], e.elems[1]) for e in args[0].elems]
        elif fname == 'dict' and len(args) == 1 and getattr(args[0], 'zipped', None) is not None:
            pairs = list(args[0].zipped)
        if pairs is None or not all(isinstance(k, Const) for k, _ in pairs):
            return None
        return DictV('%s(%s)' % (fname, ', '.join(render(a) for a in args)), pairs)

    def ev_Starred(self, node, st):
        return Sym('*' + self.text(node.value, st))

    def ev_Lambda(self, node, st):
        try:
            fd = ast.FunctionDef(name='<lambda>', args=node.args, body=[ast.Return(value=node.body)], decorator_list=[], returns=None, type_params=[])
            ast.copy_location(fd, node)
            ast.fix_missing_locations(fd)
            return LambdaV(ast.unparse(node), FunctionInfo(fd, self.module, None, outer=self.fi), st.env)
        except Exception:       # pragma: no cover
            return Sym(ast.unparse(node))

    def _map_known(self, node, st):
        """[f(x) for x in L] with L a known list: map element-wise (EachV elements are mapped inside)."""
        if isinstance(node, ast.DictComp) or len(node.generators) != 1:
            return None
        g = node.generators[0]
        if g.ifs or not isinstance(g.target, ast.Name):
            return None
        itv = self.ev(g.iter, st)
        if isinstance(itv, EachV):
            itv = ListV([itv], 'each')      # mapping over a summarised sequence maps its element: same summary, new element
        if not isinstance(itv, ListV) or len(itv.elems) > 12:
            return None

        def apply(e):
            if isinstance(e, EachV):
                return EachV(e.var, e.coll, [apply(x) for x in e.elems])
            s2 = st.fork()
            s2.env[g.target.id] = e
            return self.ev(node.elt, s2)
        if itv.kind == 'each':
            return apply(itv.elems[0])
        return ListV([apply(e) for e in itv.elems], 'list')

    def _comp(self, node, st, br):
        # comprehension: evaluate the element with generator variables symbolic
        mk = self._map_known(node, st)
        if mk is not None:
            return mk
        s2 = st.fork()
        gens = []
        for g in node.generators:
            it = self._iter_values(g.iter, s2, self._bname(g), g.target)[1]
            fuse, self._fuse = self._fuse, None
            if fuse is not None:
                vt = fuse[0]
                s2.env[g.target.id] = fuse[1]
            else:
                vt = self._assign_loopvars(g.target, s2, node, self._bname(g))
            st.bound[self._bname(g)] = _split_filter(it)[0]
            s2.bound[self._bname(g)] = _split_filter(it)[0]
            conds = []
            for c in g.ifs:
                d = self.decide(c, s2) if self.sc.decide_filters else None
                if d is False:
                    return ListV([], 'set' if br == '{}' else 'list')      # the scenario says no element passes the filter
                if d is None:
                    conds.append(self.cond_text(c, s2))
            gens.append((vt, it, conds))
        if isinstance(node, ast.DictComp):
            eltv = None
            elt = '%s: %s' % (self.text(node.key, s2), self.text(node.value, s2))
        else:
            eltv = self.ev(node.elt, s2)
            elt = render(eltv)
        # calls made inside the comprehension are still call sites of this function
        for c in s2.calls[len(st.calls):]:
            st.calls.append(c)
        for e in s2.events[len(st.events):]:
            st.events.append(e)
        if len(gens) == 1 and eltv is not None and br != '{}':
            vt, it, conds = gens[0]
            # one generator: the same summary a `for` loop appending the element would get
            return EachV(vt, it + ''.join(' if ' + c for c in conds), [eltv])
        gtext = ' '.join('for %s in %s%s' % (vt, it, ''.join(' if ' + c for c in conds)) for vt, it, conds in gens)
        return Sym('%s%s %s%s' % (br[0], elt, gtext, br[1]))

    def ev_ListComp(self, node, st):
        return self._comp(node, st, '[]')

    def ev_SetComp(self, node, st):
        return self._comp(node, st, '{}')

    def ev_GeneratorExp(self, node, st):
        return self._comp(node, st, '()')

    def ev_DictComp(self, node, st):
        if len(node.generators) == 1 and not node.generators[0].ifs:
            # {k: v for k, v in <known pairs>}: the table itself
            itv = self.ev(node.generators[0].iter, st, quiet=True)
            if isinstance(itv, ListV) and itv.elems and len(itv.elems) <= 64 and not any(isinstance(e, EachV) for e in itv.elems):
                pairs = []
                for e in itv.elems:
                    s2 = st.fork()
                    self.assign(node.generators[0].target, e, s2, node)
                    pairs.append((self.ev(node.key, s2, quiet=True), self.ev(node.value, s2, quiet=True)))
                if all(isinstance(k, Const) for k, _ in pairs):
                    return DictV('{%s}' % ', '.join('%s: %s' % (render(k), render(v)) for k, v in pairs), pairs)
        return self._comp(node, st, '{}')

    def ev_IfExp(self, node, st):
        d = self.decide(node.test, st)
        if d is True:
            return self.ev(node.body, st)
        if d is False:
            return self.ev(node.orelse, st)
        a, b = self.ev(node.body, st), self.ev(node.orelse, st)
        if isinstance(a, Bytes) or isinstance(b, Bytes):
            return Bytes([('ALT', [as_items(a), as_items(b)])])
        return Sym('(%s if %s else %s)' % (render(a), self.text(node.test, st), render(b)))

    def ev_BoolOp(self, node, st):
        d = self.decide(node, st)
        vals = [self.ev(v, st) for v in node.values]
        if isinstance(node.op, ast.Or):
            # a or b: first truthy
            for v in vals:
                t = self.truth(v)
                if t is True:
                    return v
                if t is None:
                    break
            else:
                return vals[-1]
        else:
            for v in vals:
                t = self.truth(v)
                if t is False:
                    return v
                if t is None:
                    break
            else:
                return vals[-1]
        if d is not None and (not self.sc.extended or
                              all(isinstance(v, Const) and isinstance(v.value, bool) for v in vals if self.truth(v) is not None)):
            return Const(d)          # (extended scenarios: as a value `x or <truthy object>` is x-or-the-object, not True)
        op = ' or ' if isinstance(node.op, ast.Or) else ' and '
        k = 0
        while self.sc.extended and k < len(vals) - 1 and self.truth(vals[k]) is not None:
            k += 1          # leading operands of known (neutral) truth do not contribute to the value: `False or x` is x
        if k and len(vals) - k == 1:
            return vals[k]
        r = Sym('(%s)' % op.join(render(v) for v in vals[k:]))
        r.skel = self.cond_skel(node, st)
        return r

    def ev_UnaryOp(self, node, st):
        v = self.ev(node.operand, st)
        if isinstance(node.op, ast.Not):
            d = self.decide(node, st)
            if d is not None:
                return Const(d)
            r = Sym('not %s' % render(v))
            r.skel = self.cond_skel(node, st)
            return r
        if isinstance(v, Const) and isinstance(v.value, (int, float)) and not isinstance(v.value, bool):
            if isinstance(node.op, ast.USub):
                return Const(-v.value)
            if isinstance(node.op, ast.Invert):
                return Const(~v.value)
        sym = {ast.USub: '-', ast.UAdd: '+', ast.Invert: '~'}[type(node.op)]
        return Sym('%s%s' % (sym, render(v)))

    def ev_Compare(self, node, st):
        d = self.decide(node, st) if len(node.ops) == 1 else None
        if d is not None:
            return Const(d)
        if len(node.ops) > 1:
            # a < b < c is (a < b) and (b < c): decided when every link is
            links, left = [], node.left
            for op, c in zip(node.ops, node.comparators):
                links.append(self._compare(ast.Compare(left=left, ops=[op], comparators=[c]), st))
                left = c
            if any(x is False for x in links):
                return Const(False)
            if all(x is True for x in links):
                return Const(True)
        parts = [self.text(node.left, st)]
        for op, c in zip(node.ops, node.comparators):
            parts.append(OPS[type(op)])
            parts.append(self.text(c, st))
        r = Sym('(%s)' % ' '.join(parts))
        if len(node.ops) == 1:
            r.skel = ('cmp', parts[1], parts[0], parts[2])
        return r

    def ev_BinOp(self, node, st):
        l = self.ev(node.left, st)
        r = self.ev(node.right, st)
        if isinstance(node.op, ast.Add):
            return self.add(l, r)
        v = self.binop(node.op, l, r)
        if isinstance(node.op, ast.BitOr) and isinstance(v, Sym) and v.types is None:
            v.types = self._or_types(l)
            v.or_self = v.types is not None
        return v

    def _or_types(self, left):
        """Type tags of `left | x` when left is an object of a repo class whose __or__ returns its receiver on every returning
        path (the composition idiom `obj |= part`): the result is that object, so isinstance tests on it are decidable."""
        if isinstance(left, Sym) and left.types is not None and getattr(left, 'or_self', False):
            return left.types
        cls = left.cls if isinstance(left, (Sym, Obj)) else None
        if cls is None:
            return None
        fi = cls.find_method('__or__')
        if fi is None or not fi.params:
            return None
        rets = [n for n in _preorder(fi.node) if isinstance(n, ast.Return)]
        if not rets or not all(isinstance(n.value, ast.Name) and n.value.id == fi.params[0] for n in rets):
            return None
        return {cls.name}

    def add(self, l, r):
        if isinstance(l, Bytes) or isinstance(r, Bytes):
            return Bytes(as_items(l) + as_items(r))
        if isinstance(l, Const) and isinstance(r, Const):
            try:
                a = l.value.value if isinstance(l.value, Enum) else l.value
                b = r.value.value if isinstance(r.value, Enum) else r.value
                return Const(a + b)
            except Exception:
                pass
        if isinstance(l, ListV) and isinstance(r, ListV):
            return ListV(l.elems + r.elems, l.kind)
        return Sym('(%s + %s)' % (render(l), render(r)))

    def binop(self, op, l, r):
        if isinstance(op, ast.Mod) and isinstance(l, Bytes):
            # b'%b..%b' % (a, b): the literal parts with the operands spliced in (only %b / %s conversions)
            fits = merge_consts(l.items)
            fmt = fits[0][1] if len(fits) == 1 and fits[0][0] == 'C' else None
            ops = r.elems if isinstance(r, ListV) and r.kind == 'tuple' else [r]
            if fmt is not None and b'%%' not in fmt:
                parts = re.split(rb'%[bs]', fmt)
                if len(parts) == len(ops) + 1 and not any(b'%' in p for p in parts) and not any(isinstance(o, EachV) for o in ops):
                    out = []
                    for p_, o in zip(parts, ops + [None]):
                        if p_:
                            out.append(('C', p_))
                        if o is not None:
                            out.extend(as_items(o))
                    return Bytes(out)
        if isinstance(l, ListV) and isinstance(r, ListV) and l.kind == 'set' and r.kind == 'set' and \
                isinstance(op, (ast.BitOr, ast.BitAnd, ast.Sub)):
            lt, rt = [render(e) for e in l.elems], [render(e) for e in r.elems]
            if isinstance(op, ast.BitOr):
                return ListV(l.elems + [e for e, t in zip(r.elems, rt) if t not in lt], 'set')
            if isinstance(op, ast.BitAnd):
                return ListV([e for e, t in zip(l.elems, lt) if t in rt], 'set')
            return ListV([e for e, t in zip(l.elems, lt) if t not in rt], 'set')
        if isinstance(op, ast.Mult):
            for a, b in ((l, r), (r, l)):
                if isinstance(a, Bytes):
                    if isinstance(b, Const) and isinstance(b.value, int) and 0 <= b.value <= 64 and \
                            all(i[0] == 'C' for i in a.items):
                        return Bytes([('C', b''.join(i[1] for i in a.items) * b.value)])
                    return Bytes([('REP', a.items, render(b))])
                if isinstance(a, Sym) and a.types and set(a.types) <= {'bytes', 'bytearray'} and not isinstance(b, (Bytes, ListV)) and \
                        not (isinstance(b, Sym) and b.types and set(b.types) <= {'bytes', 'bytearray'}):
                    # a value known to be a byte string (typed parameter, `.encode()` result) times a number: that many copies
                    return Bytes([('REP', as_items(a), render(b))])
        if isinstance(l, Const) and isinstance(r, Const):
            a = l.value.value if isinstance(l.value, Enum) else l.value
            b = r.value.value if isinstance(r.value, Enum) else r.value
            try:
                f = PYOPS.get(type(op))
                if f is not None and not isinstance(a, (str, bytes)) and not isinstance(b, (str, bytes)):
                    return Const(f(a, b))
            except Exception:
                pass
        lt, rt = render(l), render(r)
        lt, rt = ['(%s)' % t if t.startswith('not ') else t for t in (lt, rt)]       # `a & (not b)` must not render as `a & not b`
        return Sym('(%s %s %s)' % (lt, OPS[type(op)], rt))

    def ev_Subscript(self, node, st):
        base = self.ev(node.value, st)
        sl = node.slice
        path = '%s[%s]' % (render(base), self._slice_text(sl, st))
        if path in st.env:
            return st.env[path]
        if isinstance(base, Const) and isinstance(base.value, (tuple, str, bytes, bytearray)):
            # constant folding: a literal sequence indexed / sliced by literals
            parts = [sl.lower, sl.upper, sl.step] if isinstance(sl, ast.Slice) else [sl]
            vals = [None if x is None else self.ev(x, st) for x in parts]
            if all(v is None or (isinstance(v, Const) and (v.value is None or type(v.value) is int)) for v in vals):
                nums = [None if v is None else v.value for v in vals]
                try:
                    return Const(base.value[slice(*nums)] if isinstance(sl, ast.Slice) else base.value[nums[0]])
                except (IndexError, TypeError, ValueError):
                    pass
        if isinstance(sl, ast.Slice):
            lo = self.text(sl.lower, st) if sl.lower is not None else ''
            if lo == '0':
                lo = ''
            hi = self.text(sl.upper, st) if sl.upper is not None else ''
            if sl.step is not None:
                return Sym('%s[%s:%s:%s]' % (render(base), lo, hi, self.text(sl.step, st)))
            if isinstance(base, Const) and type(base.value) is str and re.match(r'^-?\d*$', lo) and re.match(r'^-?\d*$', hi):
                return Const(base.value[(int(lo) if lo else None):(int(hi) if hi else None)])
            if isinstance(base, Bytes):
                its = merge_consts(base.items)
                if len(its) == 1 and its[0][0] == 'C':
                    try:
                        lo_i = int(lo) if lo else None
                        hi_i = int(hi) if hi else None
                        return Bytes([('C', its[0][1][lo_i:hi_i])])
                    except ValueError:
                        pass
                return Bytes([mk_slice(merge_consts(base.items), lo, hi)])
            return Bytes([mk_slice(render(base), lo, hi)])
        idx = self.ev(sl, st)
        if isinstance(base, DictV) and self.sc.extended and isinstance(getattr(node, 'ctx', None), ast.Load):
            hit = base.lookup(idx)
            if hit is not None and hit is not False:
                return hit
        if isinstance(base, ListV) and isinstance(idx, Const) and isinstance(idx.value, int):
            try:
                return base.elems[idx.value]
            except IndexError:
                pass
        return Sym('%s[%s]' % (render(base), render(idx)))

    def _slice_text(self, sl, st):
        if isinstance(sl, ast.Slice):
            return '%s:%s' % (self.text(sl.lower, st) if sl.lower is not None else '',
                              self.text(sl.upper, st) if sl.upper is not None else '')
        return self.text(sl, st)

    def ev_Yield(self, node, st):
        v = self.ev(node.value, st) if node.value is not None else Const(None)
        st.yields.append(v)
        st.events.append(('yield', render(v), node.lineno))
        return Const(None)

    def ev_YieldFrom(self, node, st):
        v = self.ev(node.value, st)
        st.yields.append(Sym('*' + render(v)))
        st.events.append(('yield', '*' + render(v), node.lineno))
        return Const(None)

    def ev_NamedExpr(self, node, st):
        v = self.ev(node.value, st)
        self.assign(node.target, v, st, node)
        return v

    # ------------------------------------------------------------------ calls
    def ev_Call(self, node, st):
        r = self._ev_Call(node, st)
        if type(r) is Sym and not node.keywords and getattr(r, 'skel', None) is None:
            for c in reversed(st.calls):
                if c[4] is node:
                    if r.text == '%s(%s)' % (c[0], ', '.join(c[1])):
                        r.skel = ('call', c[0], list(c[1]))
                    break
        return r

    def _ev_Call(self, node, st):
        func = node.func
        if isinstance(func, ast.Name) and func.id not in st.env and func.id in self.module.imports:
            imod, iorig = self.module.imports[func.id]
            if iorig is not None and imod in STDLIB_CANON and iorig != '*':
                # `from binascii import hexlify as h; h(x)` is the call binascii.hexlify(x)
                canon = ast.Call(func=ast.Attribute(value=ast.Name(id=imod, ctx=ast.Load()), attr=iorig, ctx=ast.Load()),
                                 args=node.args, keywords=node.keywords)
                ast.copy_location(canon, node)
                ast.fix_missing_locations(canon)
                return self._ev_Call(canon, st)
        args = []
        for a in node.args:
            if isinstance(a, ast.Starred):
                sv = self.ev(a.value, st)
                if isinstance(sv, ListV) and not any(isinstance(e, EachV) for e in sv.elems):
                    args.extend(sv.elems)       # f(x, *(a, b)) with a known tuple is f(x, a, b)
                    continue
                args.append(Sym('*' + render(sv)))
            else:
                args.append(self.ev(a, st))
        kwargs = {}
        for k in node.keywords:
            kwargs[k.arg or '**'] = self.ev(k.value, st)
        fname = dotted(func)
        ftext = None

        def record(ft):
            st.calls.append((ft, [render(a) for a in args], {k: render(v) for k, v in kwargs.items()}, node.lineno, node))
            st.events.append(('call', ft, [render(a) for a in args], {k: render(v) for k, v in kwargs.items()}, node.lineno))
            if self.sc.raises is not None:
                exc = self.sc.raises(ft)
                if exc:
                    raise CallRaises(exc)

        # ---- operator.itemgetter(k1, k2..)(d) is (d[k1], d[k2]..)
        if isinstance(func, ast.Call) and dotted(func.func) in ('operator.itemgetter', 'itemgetter') and func.args and len(node.args) == 1 and \
                not node.keywords and not func.keywords:
            items = [self.ev(ast.copy_location(ast.Subscript(value=node.args[0], slice=k, ctx=ast.Load()), node), st) for k in func.args]
            return items[0] if len(items) == 1 else ListV(items, 'tuple')
        if fname in ('dict', 'dict.fromkeys') and not (fname == 'dict' and 'dict' in st.env):
            dv = self._dict_ctor(fname, args, kwargs)
            if dv is not None:
                record(fname)
                return dv
        if fname == 'setattr' and len(args) == 3 and not kwargs and isinstance(args[1], Const) and isinstance(args[1].value, str) and \
                re.match(r'^[A-Za-z_][A-Za-z0-9_]*$', args[1].value) and 'setattr' not in st.env:
            # setattr(obj, '<constant name>', v) is the attribute assignment obj.<name> = v
            record(fname)
            tgt = ast.copy_location(ast.Attribute(value=node.args[0], attr=args[1].value, ctx=ast.Store()), node)
            self.assign(tgt, args[2], st, node)
            return Const(None)
        if fname is not None and fname.startswith('operator.') and len(args) == 2 and not kwargs and fname[9:] in OPERATOR_FUNCS:
            opn = OPERATOR_FUNCS[fname[9:]]()           # operator.or_(a, b) is a | b
            return self.add(args[0], args[1]) if isinstance(opn, ast.Add) else self.binop(opn, args[0], args[1])
        if fname in ('functools.partial', 'partial') and args and not isinstance(args[0], (Bytes, ListV)):
            # partial(f, a, k=v): an opaque symbol by its text that remembers what it will call
            record(fname)
            pv = Sym('%s(%s)' % (fname, self._argtext(args, kwargs)))
            pv.partial = (args[0], list(args[1:]), dict(kwargs))
            return pv
        pv = st.env.get(func.id) if isinstance(func, ast.Name) else (self.ev(func, st, quiet=True) if isinstance(func, (ast.Call, ast.Subscript)) else None)
        if getattr(pv, 'partial', None) is not None:
            target, pargs, pkw = pv.partial
            allargs, allkw = pargs + args, dict(pkw, **kwargs)
            if isinstance(target, (FuncV, LambdaV)):
                record(render(target))
                r = self._maybe_inline(target.fi, None, allargs, allkw, st, node, closure=target.closure_env, force=True)
                if r is not None:
                    return r
            ft = render(target)
            st.calls.append((ft, [render(a) for a in allargs], {k: render(v) for k, v in allkw.items()}, node.lineno, node))
            st.events.append(('call', ft, [render(a) for a in allargs], {k: render(v) for k, v in allkw.items()}, node.lineno))
            return Sym('%s(%s)' % (ft, self._argtext(allargs, allkw)))
        # ---- method calls on interpreted values
        if isinstance(func, ast.Attribute):
            recv = self.ev(func.value, st)
            meth = func.attr
            ftext = '%s.%s' % (render(recv), meth)
            if meth == '__setitem__' and len(node.args) == 2 and not kwargs and not any(isinstance(a, ast.Starred) for a in node.args):
                # the explicit dunder call is the subscript store
                fake = ast.copy_location(ast.Subscript(value=func.value, slice=node.args[0], ctx=ast.Store()), node)
                ast.fix_missing_locations(fake)
                self.assign(fake, args[1], st, node)
                return Const(None)
            # int_to_bytes / bytes_to_int are modelled wherever they are reached from (axiom in sa/axioms.py)
            if meth == 'int_to_bytes' and args:
                record(ftext)
                w = args[1] if len(args) > 1 else kwargs.get('minlen', Const(1))
                if 'order' in kwargs or len(args) > 2:
                    o = kwargs.get('order', args[2] if len(args) > 2 else None)
                    return Bytes([('SYM', 'int_to_bytes(%s, %s, %s)' % (render(args[0]), render(w), render(o)))])
                return Bytes([('INT', render(w), render(args[0]))])
            if meth == 'to_bytes' and self.sc.extended and not isinstance(recv, (Bytes, ListV, Obj, Hasher)):
                # <int>.to_bytes(n, 'big') is the n-octet big-endian integer, the same term int_to_bytes(x, n) denotes
                ln = args[0] if args else kwargs.get('length')
                bo = args[1] if len(args) > 1 else kwargs.get('byteorder', Const('big') if ln is not None else None)
                if ln is not None and isinstance(bo, Const) and bo.value == 'big' and len(args) <= 2 and set(kwargs) <= {'length', 'byteorder'}:
                    record(ftext)
                    return Bytes([('INT', render(ln), render(recv))])
            if isinstance(recv, Const) and type(recv.value) in (str, bytes) and meth in PURE_STR_METHODS and not kwargs and \
                    all(isinstance(a, Const) and type(a.value) in (str, bytes, int, tuple) for a in args):
                try:     # constant folding of a pure text method on a literal (scenario-given keys such as 'h_Issuer')
                    return Const(getattr(recv.value, meth)(*[a.value for a in args]))
                except Exception:
                    pass
            if isinstance(recv, Bytes) or (isinstance(func.value, ast.Name) and isinstance(st.env.get(func.value.id), Bytes)):
                tgt = recv
                if meth == 'append' and len(args) == 1:
                    tgt.items.append(('BYTE', render(args[0])))
                    record(ftext)
                    return Const(None)
                if meth == 'extend' and len(args) == 1:
                    if isinstance(args[0], ListV) and not any(isinstance(e, EachV) for e in args[0].elems):
                        tgt.items.extend(('BYTE', render(e)) for e in args[0].elems)
                    else:
                        tgt.items.extend(as_items(args[0]))
                    record(ftext)
                    return Const(None)
            if isinstance(recv, Hasher):
                if meth == 'update' and len(args) == 1:
                    recv.items.extend(as_items(args[0]))
                    record('HASHER.update')
                    return Const(None)
                if meth in ('digest', 'finalize'):
                    record('HASHER.' + meth)
                    st.hashes.append((recv.alg, list(recv.items), node.lineno))
                    return Bytes([('HASH', recv.alg, list(recv.items))])
                if meth == 'hexdigest':
                    record('HASHER.hexdigest')
                    st.hashes.append((recv.alg, list(recv.items), node.lineno))
                    return Sym('hex(%s)' % render_item(('HASH', recv.alg, list(recv.items))))
                if meth == 'copy':
                    return Hasher(recv.alg, recv.items)
            if isinstance(recv, ListV):
                if meth == 'append' and len(args) == 1:
                    recv.elems.append(args[0])
                    record(ftext)
                    return Const(None)
                if meth == 'extend' and len(args) == 1 and isinstance(args[0], (ListV, EachV)):
                    recv.elems.extend(args[0].elems if isinstance(args[0], ListV) else [args[0]])     # extend(genexp) == the append loop
                    record(ftext)
                    return Const(None)
                if meth == 'insert' and len(args) == 2 and isinstance(args[0], Const) and isinstance(args[0].value, int) and \
                        not isinstance(args[0].value, bool) and not any(isinstance(e, EachV) for e in recv.elems):
                    recv.elems.insert(args[0].value, args[1])
                    record(ftext)
                    return Const(None)
                if meth == 'extend' and len(args) == 1 and isinstance(args[0], EachV):
                    # L.extend(<comprehension>) == for x in ..: L.append(elt): the same summary element a loop gets
                    recv.elems.append(args[0])
                    record(ftext)
                    return Const(None)
            if isinstance(recv, DictV) and self.sc.extended and meth == 'get' and 1 <= len(args) <= 2 and not kwargs:
                hit = recv.lookup(args[0])
                if hit is not False:
                    record(ftext)
                    return hit if hit is not None else (args[1] if len(args) == 2 else Const(None))
            if isinstance(recv, Bytes) and meth == 'join' and len(args) == 1:
                record(ftext)
                if isinstance(args[0], ListV) and not merge_consts(recv.items):
                    its = []
                    for e in args[0].elems:
                        its.extend(as_items(e))
                    return Bytes(its)
                if isinstance(args[0], EachV) and not merge_consts(recv.items):
                    return Bytes(as_items(args[0]))     # b''.join(<comprehension>) == the loop that appends each element
                if not merge_consts(recv.items):
                    return Bytes([('SYM', 'join(%s)' % render(args[0]))])
                return Bytes([('SYM', '%s.join(%s)' % (render(recv), render(args[0])))])
            # hasher constructors reached as attributes
            if meth == 'hasher' and not args:
                pass
            if fname in ('hashlib.new',) and (args or 'name' in kwargs):
                record(fname)
                alg = render(args[0] if args else kwargs['name']).strip("'").lower()
                h = Hasher(alg)
                if len(args) > 1 or 'data' in kwargs:
                    h.items.extend(as_items(args[1] if len(args) > 1 else kwargs['data']))
                return h
            if fname is not None and fname.startswith('hashlib.') and fname[8:] in HASHLIB_CTORS:
                # hashlib.sha1([data]) is hashlib.new('sha1'[, data])
                record(fname)
                h = Hasher(fname[8:])
                if args:
                    h.items.extend(as_items(args[0]))
                return h
            if fname in ('hashes.Hash',) and args:
                record(fname)
                return Hasher(render(args[0]))
            if fname == 'itertools.chain' and args and not kwargs and all(isinstance(a, ListV) for a in args):
                record(fname)
                return ListV([e for a in args for e in a.elems], 'list')
            # super().m / super(K, self).m
            if isinstance(func.value, ast.Call) and dotted(func.value.func) == 'super':
                tgt = self._resolve_super(func.value, meth, st)
                ftext = 'super.%s' % meth
                if tgt is not None:
                    fi, selfv = tgt
                    record('super:%s' % fi.qualname)
                    r = self._maybe_inline(fi, selfv, args, kwargs, st, node)
                    if r is not None:
                        return r
                    return Sym('super(%s).%s(%s)' % (fi.cls.name, meth, ', '.join(render(a) for a in args)))
            # K.m(self, ...)
            if isinstance(recv, ClassV):
                fi = recv.ci.find_method(meth)
                if fi is not None:
                    record('%s.%s' % (recv.ci.name, meth))
                    is_static = any(dotted(d) == 'staticmethod' for d in fi.node.decorator_list)
                    is_classm = any(dotted(d) == 'classmethod' for d in fi.node.decorator_list)
                    if is_static:
                        r = self._maybe_inline(fi, None, args, kwargs, st, node)
                    elif is_classm:
                        r = self._maybe_inline(fi, recv, args, kwargs, st, node)
                    else:
                        r = self._maybe_inline(fi, args[0] if args else None, args[1:], kwargs, st, node)
                    if r is not None:
                        return r
                    return Sym('%s.%s(%s)' % (recv.ci.name, meth, ', '.join(render(a) for a in args)))
            # self.m(...) / obj.m(...) with a known class
            cls = recv.cls if isinstance(recv, (Sym, Obj)) else None
            if cls is not None:
                fi = cls.find_method(meth)
                if fi is not None and cls.find_prop(meth) is None and cls.find_plain_prop(meth) is None:
                    args, kwargs = _positional(fi, args, kwargs, True)      # keyword arguments of a resolved callee -> positions
                    record('%s.%s' % (render(recv), meth))
                    self.I.resolved_calls += 1
                    r = self._maybe_inline(fi, recv, args, kwargs, st, node)
                    if r is not None:
                        return r
                    return Sym('%s.%s(%s)' % (render(recv), meth, self._argtext(args, kwargs)))
            record(ftext)
            if meth == 'get' and len(args) in (1, 2) and not kwargs and '%s[%s]' % (render(recv), render(args[0])) in st.env:
                return st.env['%s[%s]' % (render(recv), render(args[0]))]          # d.get(k) of an entry the scenario / path knows
            return self._opaque_call(ftext, args, kwargs, recv, meth)

        # ---- plain names
        if isinstance(func, ast.Name):
            n = func.id
            callee = st.env.get(n)
            if isinstance(callee, (FuncV, LambdaV)):
                record(n)
                r = self._maybe_inline(callee.fi, None, args, kwargs, st, node, closure=callee.closure_env, force=True)
                if r is not None:
                    return r
                return Sym('%s(%s)' % (n, self._argtext(args, kwargs)))
            if getattr(callee, 'method', None) is not None:
                r = self._call_bound(callee, args, kwargs, st, node, record)
                if r is not None:
                    return r
            if self.sc.extended and type(callee) is Sym and n not in self.fi.params and re.match(r'^[A-Za-z_][\w.]*$', callee.text) and callee.text != n:
                # a local bound to an opaque callable (f = zlib.compress; f(x)): the call is the call of that callable
                record(callee.text)
                return Sym('%s(%s)' % (callee.text, self._argtext(args, kwargs)))
            if isinstance(callee, ClassV) and (n not in self.fi.params or self.sc.canonical_objs):
                # a local (not a parameter such as `cls`) bound to a class (k = A if c else B; k()): the call constructs that class
                record(callee.ci.name)
                return self._construct(callee.ci, args, kwargs, st, node)
            if isinstance(callee, Sym) and callee.text != n and \
                    (re.match(r'^[\w.()<>#]+$', callee.text) or (re.match(r'^[A-Za-z_][\w.]*\(.*\)$', callee.text) and _balanced(callee.text))):
                # a local that holds a callable value (bound method, function reference, looked-up class): the call is a call of that value
                record(callee.text)
                if callee.text.endswith('.int_to_bytes') and args and len(args) <= 2 and set(kwargs) <= {'minlen'}:
                    w = args[1] if len(args) > 1 else kwargs.get('minlen', Const(1))       # the modelled bound method held in a local
                    return Bytes([('INT', render(w), render(args[0]))])
                return Sym('%s(%s)' % (callee.text, self._argtext(args, kwargs)))
            if isinstance(callee, Sym) and callee.text != n and n not in self.fi.params and \
                    (callee.text.startswith('{') or (re.match(r'^[\w.]+\(.*\)$', callee.text) and _balanced(callee.text))):
                # a local holding the result of a dispatch on a display ({k: f}.get(x, g) / {k: f}[x]) or of a call that returns a
                # callable (getattr(mod, name)): the call is a call of that value
                record(callee.text)
                return Sym('%s(%s)' % (callee.text, self._argtext(args, kwargs)))
            if n in ('bytearray', 'bytes'):
                record(n)
                if not args:
                    return Bytes([])
                a = args[0]
                if isinstance(a, Bytes):
                    return Bytes(a.items)
                if isinstance(a, ListV):
                    return Bytes([('BYTE', render(e)) for e in a.elems])
                if isinstance(a, Const) and isinstance(a.value, int) and not isinstance(a.value, bool) and a.value <= 64:
                    return Bytes([('C', bytes(a.value))])
                if isinstance(a, Sym) and a.text.startswith('[') and ' for ' not in a.text:
                    return Bytes([('SYM', a.text)])
                if isinstance(a, Sym) and st.bound.get(a.text, '').startswith('range('):
                    return Bytes([('REP', [('C', b'\x00')], a.text)])      # bytes(i), i an index of a range: i zero octets
                if isinstance(a, Const) and isinstance(a.value, int):
                    return Bytes([('REP', [('C', b'\x00')], render(a))])
                mz = re.match(r'^\(\[0\] \* (.+)\)$', a.text) if isinstance(a, Sym) else None
                if mz and _balanced(mz.group(1)):
                    return Bytes([('REP', [('C', b'\x00')], mz.group(1))])         # bytes([0] * n)
                if isinstance(a, Sym) and re.search(r' (//|>>|<<) ', _toplevel(_strip_parens(a.text))):
                    return Bytes([('REP', [('C', b'\x00')], a.text)])      # an integer-valued expression: that many zero octets
                return Bytes([('SYM', a.text if isinstance(a, Sym) else render(a))])
            if n == 'len' and len(args) == 1:
                record(n)
                a = args[0]
                if isinstance(a, Bytes):
                    its = merge_consts(a.items)
                    if all(i[0] == 'C' for i in its):
                        return Const(sum(len(i[1]) for i in its))
                    # items of fixed width (constant octets, single octets, integers of a literal width) have a known length
                    if its and all(i[0] in ('C', 'BYTE') or (i[0] == 'INT' and str(i[1]).isdigit()) for i in its):
                        return Const(sum(len(i[1]) if i[0] == 'C' else 1 if i[0] == 'BYTE' else int(i[1]) for i in its))
                if isinstance(a, ListV):
                    return Const(len(a.elems))
                if isinstance(a, Const) and isinstance(a.value, (bytes, bytearray, str, tuple, list)):
                    return Const(len(a.value))
                lcls = a.cls if isinstance(a, (Sym, Obj)) else None
                lfi = lcls.find_method('__len__') if lcls is not None else None
                if lfi is not None and self.sc.inline is not None and self.sc.inline(lfi):
                    # len(x) on an object of a known class is x.__len__() (only under an explicit inlining policy)
                    r = self._maybe_inline(lfi, a, [], {}, st, node)
                    if r is not None:
                        return r
                if isinstance(a, Const) and isinstance(a.value, (str, bytes, bytearray, tuple)):
                    return Const(len(a.value))
                return Sym('len(%s)' % render(a))
            if n in ('int', 'bool', 'str') and len(args) == 1 and isinstance(args[0], Const) and \
                    not isinstance(args[0].value, Enum):
                try:
                    return Const({'int': int, 'bool': bool, 'str': str}[n](args[0].value))
                except Exception:
                    pass
            if n == 'isinstance' and len(node.args) == 2:
                d = None
                if self.sc.oracle is not None:       # a scenario fact about this test holds in value position too
                    d = self.sc.oracle('isinstance(%s)' % ', '.join(render(a) for a in args))
                if d is None:
                    d = self._isinstance(node.args[0], node.args[1], st)
                if d is not None:
                    return Const(d)
            if n == 'range':
                record(n)
                if all(isinstance(a, Const) and isinstance(a.value, int) for a in args):
                    r = range(*[a.value for a in args])
                    if len(r) <= 12:
                        return ListV([Const(i) for i in r], 'list')
                return Sym('range(%s)' % self._argtext(args, kwargs))
            if n == 'getattr' and len(args) >= 2 and isinstance(args[1], Const) and isinstance(args[1].value, str):
                record(n)
                fake = ast.Attribute(value=node.args[0], attr=args[1].value, ctx=ast.Load())
                return self.ev_Attribute(fake, st)
            if n == 'setattr' and len(args) == 3 and not kwargs and isinstance(args[1], Const) and isinstance(args[1].value, str) and \
                    args[1].value.isidentifier():
                # setattr(x, 'name', v) with a decided name is the store x.name = v
                record(n)
                fake = ast.copy_location(ast.Attribute(value=node.args[0], attr=args[1].value, ctx=ast.Store()), node)
                self.assign(fake, args[2], st, node)
                return Const(None)
            if n in ('iter', 'list', 'tuple') and len(args) == 1 and isinstance(args[0], EachV) and not kwargs:
                record(n)
                return args[0]
            if n == 'zip' and len(args) == 2 and not kwargs and all(isinstance(a, ListV) for a in args) and \
                    len(args[0].elems) == len(args[1].elems) and n not in st.env:
                record(n)
                zv = ListV([ListV([a, b], 'tuple') for a, b in zip(args[0].elems, args[1].elems)], 'list')
                zv.zipped = list(zip(args[0].elems, args[1].elems))
                return zv
            if n in ('list', 'tuple') and len(args) == 1 and isinstance(args[0], ListV) and not kwargs and n not in st.env:
                record(n)
                return ListV(list(args[0].elems), n)
            if n == 'sum' and len(args) == 1 and not kwargs and isinstance(args[0], EachV) and len(args[0].elems) == 1 and \
                    isinstance(args[0].elems[0], Sym) and args[0].elems[0].text == args[0].var and ' if ' not in args[0].coll:
                record(n)
                return Sym('sum(%s)' % args[0].coll)        # sum(x for x in coll) is sum(coll)
            if n == 'filter' and len(args) == 2 and not kwargs:
                fv = self._filter_each(node, args, st)
                if fv is not None:
                    record(n)
                    return fv
            if n in ('frozenset', 'set', 'tuple', 'list') and len(args) == 1 and not kwargs and isinstance(args[0], ListV) and \
                    not any(isinstance(e, EachV) for e in args[0].elems):
                record(n)
                return ListV(list(args[0].elems), 'set' if n in ('frozenset', 'set') else n)     # a known collection, whatever its container
            if n == 'iter' and len(args) == 1 and not kwargs and isinstance(args[0], Const) and isinstance(args[0].value, (tuple, list, bytes, bytearray)):
                record(n)
                return args[0]          # iterating iter(<literal sequence>) is iterating the sequence
            if n == 'zip' and args and not kwargs and all(isinstance(a, ListV) and not any(isinstance(e, EachV) for e in a.elems) for a in args):
                record(n)
                return ListV([ListV(list(t), 'tuple') for t in zip(*[a.elems for a in args])], 'list')
            if n == 'enumerate' and len(args) == 1 and not kwargs and isinstance(args[0], ListV) and \
                    not any(isinstance(e, EachV) for e in args[0].elems):
                record(n)
                return ListV([ListV([Const(i), e], 'tuple') for i, e in enumerate(args[0].elems)], 'list')
            if n == 'divmod' and len(args) == 2 and not kwargs:
                # divmod(a, b) == (a // b, a % b)
                record(n)
                return ListV([self.binop(ast.FloorDiv(), args[0], args[1]), self.binop(ast.Mod(), args[0], args[1])], 'tuple')
            if n in ('iter', 'list', 'tuple') and len(args) == 1 and isinstance(args[0], ListV) and not kwargs:
                record(n)
                return ListV(list(args[0].elems), 'tuple' if n == 'tuple' else 'list')
            if n == 'reversed' and len(args) == 1 and isinstance(args[0], ListV):
                rev = []
                for e in reversed(args[0].elems):
                    rev.append(EachV(e.var, 'reversed(%s)' % e.coll, e.elems) if isinstance(e, EachV) else e)
                return ListV(rev, args[0].kind)
            if callee is None and isinstance(self.module.assigns.get(n), ast.Lambda):
                lv = self.ev_Lambda(self.module.assigns[n], State())
                if isinstance(lv, LambdaV):
                    record(n)
                    r = self._maybe_inline(lv.fi, None, args, kwargs, st, node, closure=lv.closure_env, force=True)
                    if r is not None:
                        return r
            r = self.prog.lookup(self.module, n)
            if isinstance(r, ClassInfo):
                record(n)
                return self._construct(r, args, kwargs, st, node)
            if isinstance(r, FunctionInfo):
                record(n)
                self.I.resolved_calls += 1
                x = self._maybe_inline(r, None, args, kwargs, st, node)
                if x is not None:
                    return x
                return Sym('%s(%s)' % (n, self._argtext(args, kwargs)))
            record(n)
            return Sym('%s(%s)' % (n, self._argtext(args, kwargs)))
        fv = self.ev(func, st, quiet=True)
        if getattr(fv, 'method', None) is not None:
            r = self._call_bound(fv, args, kwargs, st, node, record)
            if r is not None:
                return r
        if isinstance(fv, ClassV):          # (a or B)() / (A if c else B)() once the callee expression is decided to be a class
            record(fv.ci.name)
            return self._construct(fv.ci, args, kwargs, st, node)
        if isinstance(fv, (LambdaV, FuncV)):
            record(render(fv))
            r = self._maybe_inline(fv.fi, None, args, kwargs, st, node, closure=fv.closure_env, force=True)
            if r is not None:
                return r
        ftext = render(fv)
        record(ftext)
        return Sym('%s(%s)' % (ftext, self._argtext(args, kwargs)))

    def _filter_each(self, node, args, st):
        """filter(lambda v: c, it) / filter(<one-expression local function>, it) is the comprehension (v for v in it if c)."""
        pred = node.args[0]
        lam = None
        if isinstance(pred, ast.Lambda):
            lam = (pred.args, pred.body)
        elif isinstance(args[0], Sym) and args[0].text.startswith('lambda '):
            try:
                x = ast.parse(args[0].text, mode='eval').body
                lam = (x.args, x.body)
            except SyntaxError:
                lam = None
        elif isinstance(args[0], FuncV) and args[0].fi.cls is None:
            body = [b for b in args[0].fi.node.body if not (isinstance(b, ast.Expr) and isinstance(b.value, ast.Constant))]
            if len(body) == 1 and isinstance(body[0], ast.Return) and body[0].value is not None:
                lam = (args[0].fi.node.args, body[0].value)
        if lam is None or len(lam[0].args) != 1 or lam[0].vararg or lam[0].kwarg or lam[0].kwonlyargs or lam[0].defaults:
            return None
        if not hasattr(self, 'lambda_index'):
            self.lambda_index = {}
        k = self.lambda_index.setdefault(id(node), len(self.bindex) + len(self.lambda_index) + 1)
        bname = '$%d' % k if self.depth == 0 else '$%d.%d' % (self.depth, k)
        s2 = st.fork()
        s2.env[lam[0].args[0].arg] = Sym(bname, nonnull=True)
        cond = self.cond_text(lam[1], s2)
        it = render(args[1])
        st.bound[bname] = it
        return EachV(bname, '%s if %s' % (it, cond), [Sym(bname)])

    def _call_bound(self, bm, args, kwargs, st, node, record):
        """Call of a remembered bound method value (see ev_Attribute): a helper outside the reference vocabulary is followed."""
        from .vocab import FUNCTIONS as _VOCAB
        mfi, recv = bm.method
        if mfi.name in _VOCAB:
            return None
        decs = [dotted(d) for d in mfi.node.decorator_list]
        if any(d not in ('staticmethod', 'classmethod') for d in decs):
            return None
        record(bm.text)
        selfv = None if 'staticmethod' in decs else (recv if 'classmethod' not in decs else ClassV(mfi.cls))
        return self._maybe_inline(mfi, selfv, args, kwargs, st, node, force=True)

    def _argtext(self, args, kwargs):
        parts = [render(a) for a in args] + ['%s=%s' % (k, render(v)) for k, v in kwargs.items()]
        return ', '.join(parts)

    def _opaque_call(self, ftext, args, kwargs, recv, meth):
        self.I.unresolved_calls += 1
        if isinstance(recv, Const) and isinstance(recv.value, str) and meth in PURE_STR_METHODS and not kwargs and \
                all(isinstance(a, Const) and isinstance(a.value, (str, int)) and not isinstance(a.value, Enum) for a in args):
            try:
                return Const(getattr(recv.value, meth)(*[a.value for a in args]))      # constant folding of a pure str method
            except Exception:
                pass
        at = self._argtext(args, kwargs)
        base = render(recv)
        # transparent wrappers: bytes(x) etc. are handled elsewhere; here a few text-preserving methods
        if '%s.%s(%s)' % (base, meth, at) in self.sc.unroll:
            # scenario fact: this collection has exactly these elements (also when it is not directly a loop's iterable)
            return ListV(list(self.sc.unroll['%s.%s(%s)' % (base, meth, at)]), 'list')
        if meth == '__bytearray__' or meth == '__bytes__':
            return Bytes([('SYM', '%s.__bytearray__()' % base)])
        if meth == 'hasher' and not args:
            return Hasher('%s' % base)
        if meth in ('digest',) and base.endswith('.hasher'):
            return Bytes([('SYM', '%s.%s(%s)' % (base, meth, at))])
        if meth == 'encode':
            return Sym('%s.%s(%s)' % (base, meth, at), types={'bytes'}, nonnull=True)
        if meth == 'decode':
            return Sym('%s.%s(%s)' % (base, meth, at), types={'str'}, nonnull=True)
        return Sym('%s.%s(%s)' % (base, meth, at))

    def _construct(self, ci, args, kwargs, st, node):
        # enum call: SignatureType(v) keeps the value (injective, raises on unknown)
        if self._is_enum(ci):
            if len(args) == 1 and isinstance(args[0], Const):
                for k, v in ci.enum_members().items():
                    if v == args[0].value or (isinstance(args[0].value, Enum) and args[0].value.value == v):
                        return Const(Enum(ci.name, k, v))
            return Sym('%s(%s)' % (ci.name, self._argtext(args, kwargs)))
        return Obj('<new %s@%d>' % (ci.name, node.lineno), ci, '%s(%s)' % (ci.name, self._argtext(args, kwargs)))

    def _resolve_super(self, supercall, meth, st):
        selfv = None
        kcls = None
        if len(supercall.args) == 2:
            k = self.ev(supercall.args[0], st)
            selfv = self.ev(supercall.args[1], st)
            if isinstance(k, ClassV):
                kcls = k.ci
        elif not supercall.args:
            kcls = self.fi.cls
            p = self.fi.params
            selfv = st.env.get(p[0]) if p else None
        if kcls is None or selfv is None:
            return None
        runtime = selfv.cls if isinstance(selfv, (Sym, Obj)) and selfv.cls is not None else \
            (selfv.ci if isinstance(selfv, ClassV) else kcls)
        if kcls not in runtime.mro():
            runtime = kcls
        fi = runtime.find_method(meth, after=kcls)
        if fi is None:
            return None
        return fi, selfv

    def _maybe_inline(self, fi, selfv, args, kwargs, st, node, closure=None, force=False):
        if self.depth >= self.sc.max_depth:
            return None
        pol = self.sc.inline
        allow = force or (pol(fi) if pol is not None else default_inline(fi))
        if not allow:
            return None
        return self._inline(fi, selfv, args, kwargs, st, closure)

    def _inline(self, fi, selfv, args, kwargs, st, closure=None):
        params = fi.params
        pos = list(params)
        is_static = any(dotted(d) == 'staticmethod' for d in fi.node.decorator_list)
        binding = {}
        if fi.cls is not None and not is_static and pos:
            pos.pop(0)
        for name, a in zip(pos, args):
            binding[name] = a
        for k, v in kwargs.items():
            binding[k] = v
        # defaults for unbound parameters
        defaults = fi.node.args.defaults
        for name, d in zip(pos[len(pos) - len(defaults):], defaults):
            if name not in binding:
                try:
                    binding[name] = Const(ast.literal_eval(d))
                except Exception:
                    binding[name] = Sym(ast.unparse(d))
        sub = Interp(self.prog, self.sc)
        sub.notes = self.I.notes
        frame_st = State()
        first = params[0] if (fi.cls is not None and not is_static and params) else None
        if closure is not None:
            for k, v in closure.items():
                frame_st.env[k] = v
        # attribute facts known about the receiver are visible in the callee (same object): carry dotted paths
        if first is not None and selfv is not None:
            frame_st.env[first] = selfv
            st_text = render(selfv)
            for k, v in st.env.items():
                if k.startswith(st_text + '.'):
                    frame_st.env[first + k[len(st_text):]] = v
        for name in pos:
            frame_st.env[name] = binding.get(name, Sym(name))
        for a in fi.node.args.kwonlyargs:
            frame_st.env[a.arg] = binding.get(a.arg, Sym(a.arg))
        frame_st.calls = st.calls
        frame_st.stores = st.stores
        frame_st.events = st.events
        frame_st.hashes = st.hashes
        frame_st.bound = st.bound
        frame_st.filters = st.filters
        fr = Frame(self.I, fi, self.depth + 1)
        outs = fr.block(fi.node.body, frame_st)
        rets = [(s, status) for s, status in outs if status in ('return', 'normal')]
        if not rets:
            return Sym('<raises %s>' % fi.qualname)
        if len(rets) == 1 and any(isinstance(n, (ast.Yield, ast.YieldFrom)) for n in _preorder(fi.node)) and \
                not any(isinstance(y, Sym) and y.text.startswith(('EACH(', 'ALT(', '*')) for y in rets[0][0].yields):
            # calling a generator function whose yields are all enumerated: the value is the sequence it produces
            return ListV(list(rets[0][0].yields), 'list')
        vals = []
        for s, status in rets:
            v = s.ret if status == 'return' else Const(None)
            vals.append(v)
        texts = []
        for v in vals:
            t = render(v)
            if t not in texts:
                texts.append(t)
        if len(texts) == 1:
            # propagate attribute stores on the receiver back to the caller
            s0 = rets[0][0]
            if first is not None and selfv is not None:
                base = render(selfv)
                for k, v in s0.env.items():
                    if k.startswith(first + '.'):
                        st.env[base + k[len(first):]] = v
            st.yields.extend(s0.yields)
            return vals[0]
        if all(isinstance(v, (Bytes, Const)) for v in vals) and any(isinstance(v, Bytes) for v in vals):
            return Bytes([('ALT', [as_items(v) for v in vals])])
        return Sym('ALT(%s)' % ' | '.join(texts))


def _positional(fi, args, kwargs, bound):
    """Move keyword arguments of a call to a resolved callee into their positions (as far as they continue the positional list)."""
    if not kwargs or '**' in kwargs:
        return args, kwargs
    a = fi.node.args
    if a.vararg is not None:
        return args, kwargs
    params = [x.arg for x in a.posonlyargs + a.args]
    is_static = any(dotted(d) == 'staticmethod' for d in fi.node.decorator_list)
    if bound and fi.cls is not None and not is_static and params:
        params = params[1:]
    args = list(args)
    kwargs = dict(kwargs)
    for p in params[len(args):]:
        if p in kwargs:
            args.append(kwargs.pop(p))
        else:
            break
    return args, kwargs


NEGOPS = {'==': '!=', '!=': '==', 'in': 'not in', 'not in': 'in', 'is': 'is not', 'is not': 'is'}


def _fact_literal(f):
    """Text of one path decision (cond_text, value, skeleton) as a condition that holds on the path."""
    t, val, sk = f
    if val:
        return t
    if sk is not None and sk[0] == 'not' and t.startswith('not '):
        return t[4:]
    if sk is not None and sk[0] == 'cmp' and sk[1] in NEGOPS and t == '(%s %s %s)' % (sk[2], sk[1], sk[3]):
        return '(%s %s %s)' % (sk[2], NEGOPS[sk[1]], sk[3])
    return 'not %s' % t


def path_filter(factlists):
    """' if c1 if c2' for the disjunction of the given paths (each a list of decisions); None when a decision is not a condition
    of the element (exception edges).  Paths that differ in the value of one decision only are merged first."""
    paths = []
    for fl in factlists:
        if any(len(f) < 3 or f[2] is None for f in fl):
            return None
        p = [(f[0], bool(f[1]), _fact_literal(f)) for f in fl]
        if p not in paths:
            paths.append(p)
    changed = True
    while changed and len(paths) > 1:
        changed = False
        for i in range(len(paths)):
            for j in range(i + 1, len(paths)):
                a, b = paths[i], paths[j]
                if len(a) == len(b):
                    diff = [k for k in range(len(a)) if a[k][:2] != b[k][:2]]
                    if len(diff) == 1 and a[diff[0]][0] == b[diff[0]][0]:
                        merged = a[:diff[0]] + a[diff[0] + 1:]
                        paths = [p for k, p in enumerate(paths) if k not in (i, j)]
                        if merged not in paths:
                            paths.append(merged)
                        changed = True
                        break
            if changed:
                break
    if any(not p for p in paths):
        return ''
    if len(paths) == 1:
        return ''.join(' if ' + lit for _, _, lit in paths[0])
    return ' if (%s)' % ' or '.join('(%s)' % ' and '.join(lit for _, _, lit in p) if len(p) > 1 else p[0][2] for p in paths)


def _preorder(node):
    yield node
    for ch in ast.iter_child_nodes(node):
        if isinstance(ch, (ast.FunctionDef, ast.AsyncFunctionDef, ast.ClassDef)) and ch is not node:
            continue
        for x in _preorder(ch):
            yield x


def alpha(text):
    """Renumber the canonical bound-variable names of a rendered value in order of first appearance, so that two renderings
    that differ only in how many binding constructs precede them in their functions compare equal."""
    order = {}

    def rep(m):
        k = m.group(1)
        if k not in order:
            order[k] = '$%d' % (len(order) + 1)
        return order[k]
    return re.sub(r'(\$\d+(?:\.\d+)?)', rep, text)


def expand_bound(st, text):
    """Self-describing form of a rendered value: every bound-variable name $k is replaced by `<collection>[*]`."""
    for _ in range(4):
        new = re.sub(r'(\$\d+(?:\.\d+)?)(?![\d])', lambda m: ('%s[*]' % st.bound[m.group(1)]) if m.group(1) in st.bound else m.group(1), text)
        if new == text:
            break
        text = new
    return text


def bound_over(st, coll):
    """Canonical names of the variables that range over the collection with this text on the path (rules use this instead
    of the source's variable names)."""
    return sorted(k for k, v in st.bound.items() if v == coll)


def default_inline(fi):
    """Default inlining policy: serialisation helpers of the same object and nested closures."""
    return fi.name in ('__bytearray__', '__bytes__', '__hashbytearray__', '__unhashbytearray__', 'encode_length',
                       '_new_length', '_old_length', '_experimental_bytearray', 'to_mpibytes', 'canonical_bytes')


def normalise_path(p):
    """Aliases decided from the class table once (ParentRef.parent returns _parent)."""
    return p.replace('.parent.', '._parent.') if '.parent.' in p else (p[:-7] + '._parent' if p.endswith('.parent') else p)


PURE_STR_METHODS = ('startswith', 'endswith', 'find', 'rfind', 'index', 'count', 'lower', 'upper', 'strip', 'lstrip', 'rstrip',
                    'isupper', 'islower', 'isdigit', 'isalpha', 'isalnum', 'isspace', 'replace', 'title', 'capitalize', 'partition',
                    'rpartition')

OPS = {ast.Add: '+', ast.Sub: '-', ast.Mult: '*', ast.Div: '/', ast.FloorDiv: '//', ast.Mod: '%', ast.Pow: '**',
       ast.LShift: '<<', ast.RShift: '>>', ast.BitOr: '|', ast.BitAnd: '&', ast.BitXor: '^', ast.MatMult: '@',
       ast.Eq: '==', ast.NotEq: '!=', ast.Lt: '<', ast.LtE: '<=', ast.Gt: '>', ast.GtE: '>=', ast.Is: 'is',
       ast.IsNot: 'is not', ast.In: 'in', ast.NotIn: 'not in'}

STDLIB_CANON = {'os', 'zlib', 'bz2', 'binascii', 'hashlib', 'functools', 'operator', 'itertools'}

OPERATOR_FUNCS = {'add': ast.Add, 'sub': ast.Sub, 'mul': ast.Mult, 'floordiv': ast.FloorDiv, 'mod': ast.Mod, 'lshift': ast.LShift,
                  'rshift': ast.RShift, 'or_': ast.BitOr, 'and_': ast.BitAnd, 'xor': ast.BitXor, 'pow': ast.Pow}


def _small_pow(a, b):
    if isinstance(a, int) and isinstance(b, int) and 0 <= b <= 64 and abs(a) <= 65536:
        return a ** b
    raise ValueError('not folded')


PYOPS = {ast.Sub: lambda a, b: a - b, ast.Mult: lambda a, b: a * b, ast.FloorDiv: lambda a, b: a // b,
         ast.Mod: lambda a, b: a % b, ast.LShift: lambda a, b: a << b, ast.RShift: lambda a, b: a >> b,
         ast.BitOr: lambda a, b: a | b, ast.BitAnd: lambda a, b: a & b, ast.BitXor: lambda a, b: a ^ b,
         ast.Add: lambda a, b: a + b,
         ast.Pow: lambda a, b: _small_pow(a, b)}
