"""E3 - statement-level control-flow graph with dominators, reachability and bounded path enumeration.

Hand-built over the statement kinds the repository uses: if / for / while (with else) / try-except-else-finally /
with / return / raise / break / continue / yield.  `finally` bodies are duplicated per way of leaving the try
(normal, return, raise, break, continue) so that "every exit passes through the cleanup" is a plain
reachability question.  Inside a `try`, every statement gets an exceptional edge to each handler and (through
the finally chain) to the exceptional exit; a `yield` anywhere is a possible raise point (generator .throw / close).
"""
import ast


class Node(object):
    __slots__ = ('id', 'kind', 'ast', 'label', 'lineno')

    def __init__(self, id, kind, astnode=None, label=''):
        self.id = id
        self.kind = kind          # entry exit raise_exit stmt test loop handler
        self.ast = astnode
        self.label = label
        self.lineno = getattr(astnode, 'lineno', 0)

    def __repr__(self):
        return '<%d %s %s L%d>' % (self.id, self.kind, self.label, self.lineno)


class CFG(object):
    def __init__(self, fn_node, raising=None, any_class=None):
        """raising: optional predicate(ast statement) -> True for statements that may raise even outside any try
        (they get an exceptional edge to the exceptional exit).
        any_class: optional predicate(ast statement) -> True for statements whose implicit exception may be of ANY class
        (GeneratorExit / KeyboardInterrupt / SystemExit / CancelledError thrown in at a yield ...): such an exception is
        stopped only by a bare `except:` / `except BaseException`, `except Exception` lets it pass (finally still runs)."""
        self.raising = raising
        self.any_class = any_class
        self.fn = fn_node
        self.nodes = []
        self.succ = {}
        self.pred = {}
        self.entry = self._new('entry', None, 'ENTRY')
        self.exit = self._new('exit', None, 'EXIT')
        self.raise_exit = self._new('raise_exit', None, 'RAISE')
        self._loops = []      # (continue_target_id, break_collector list, finally_depth)
        self._finally = []    # stack of finalbody statement lists
        self._handlers = []   # stack of (handler entry ids list, catches_all, finally_depth)
        out = self._seq(fn_node.body, [(self.entry.id, None)])
        self._connect(out, self.exit.id)

    # ------------------------------------------------------------- construction helpers
    def _new(self, kind, astnode, label=''):
        n = Node(len(self.nodes), kind, astnode, label)
        self.nodes.append(n)
        self.succ[n.id] = []
        self.pred[n.id] = []
        return n

    def _edge(self, a, b, label=None):
        if (b, label) not in self.succ[a]:
            self.succ[a].append((b, label))
            self.pred[b].append((a, label))

    def _connect(self, dangling, target):
        for a, label in dangling:
            self._edge(a, target, label)

    def _through_finally(self, dangling, depth_to, label_kind):
        """Route dangling edges through copies of the finally bodies from the innermost down to depth_to."""
        for i in range(len(self._finally) - 1, depth_to - 1, -1):
            body = self._finally[i]
            saved_f, saved_h = self._finally, self._handlers
            self._finally = self._finally[:i]
            self._handlers = [h for h in self._handlers if h[2] <= i]
            dangling = self._seq(body, dangling, tag='finally(%s)' % label_kind)
            self._finally, self._handlers = saved_f, saved_h
        return dangling

    def _exc_edges(self, node_id, any_class=False):
        """Implicit exception from a node inside try bodies: to handlers, and outwards if not caught-all."""
        if not self._handlers and not self._finally:
            return
        depth = len(self._finally)
        caught = False
        for hids, catches_all, fdepth in reversed(self._handlers):
            d = self._through_finally([(node_id, 'exc')], fdepth, 'exc') if fdepth < depth else [(node_id, 'exc')]
            for h in hids:
                self._connect(d, h)
            depth = min(depth, fdepth)
            if catches_all and (not any_class or catches_all == 2):     # 2: the handler list covers BaseException
                caught = True
                break
        if not caught:
            d = self._through_finally([(node_id, 'exc')], 0, 'exc')
            self._connect(d, self.raise_exit.id)

    # ------------------------------------------------------------- statements
    def _seq(self, stmts, dangling, tag=''):
        for st in stmts:
            if not dangling:
                # unreachable code still gets nodes (so rules can see it) but no incoming edges
                pass
            dangling = self._stmt(st, dangling, tag)
        return dangling

    def _simple(self, st, dangling, tag, kind='stmt'):
        n = self._new(kind, st, (tag + ' ' if tag else '') + type(st).__name__)
        self._connect(dangling, n.id)
        return n

    def _stmt(self, st, dangling, tag):
        if isinstance(st, ast.If):
            t = self._simple(st, dangling, tag, 'test')
            a = self._seq(st.body, [(t.id, 'T')], tag)
            b = self._seq(st.orelse, [(t.id, 'F')], tag)
            if self._contains_call(st.test):
                self._exc_edges(t.id)
            return a + b
        if isinstance(st, ast.For) and isinstance(st.target, ast.Name) and st.target.id.startswith('__once') and \
                isinstance(st.iter, ast.Tuple) and len(st.iter.elts) == 1 and not st.orelse:
            # one-iteration block produced by the canonicaliser for an inlined helper with early returns:
            # the body runs exactly once, `break` leaves it, falling off its end leaves it (no zero-iteration path, no back edge)
            head = self._simple(st, dangling, tag, 'stmt')
            breaks = []
            self._loops.append((head.id, breaks, len(self._finally)))
            body_out = self._seq(st.body, [(head.id, None)], tag)
            self._loops.pop()
            return body_out + breaks
        if isinstance(st, (ast.For, ast.While)):
            head = self._simple(st, dangling, tag, 'loop')
            breaks = []
            self._loops.append((head.id, breaks, len(self._finally)))
            body_out = self._seq(st.body, [(head.id, 'T')], tag)
            self._loops.pop()
            self._connect(body_out, head.id)
            self._exc_edges(head.id)
            else_out = self._seq(st.orelse, [(head.id, 'F')], tag)
            return else_out + breaks
        if isinstance(st, ast.Return):
            n = self._simple(st, dangling, tag)
            d = self._through_finally([(n.id, None)], 0, 'return')
            self._connect(d, self.exit.id)
            return []
        if isinstance(st, ast.Raise):
            n = self._simple(st, dangling, tag)
            self._raise_from(n.id, st)
            return []
        if isinstance(st, ast.Break):
            n = self._simple(st, dangling, tag)
            head, breaks, fdepth = self._loops[-1]
            d = self._through_finally([(n.id, None)], fdepth, 'break')
            breaks.extend(d)
            return []
        if isinstance(st, ast.Continue):
            n = self._simple(st, dangling, tag)
            head, breaks, fdepth = self._loops[-1]
            d = self._through_finally([(n.id, None)], fdepth, 'continue')
            self._connect(d, head)
            return []
        if isinstance(st, ast.With):
            n = self._simple(st, dangling, tag)
            self._exc_edges(n.id)
            return self._seq(st.body, [(n.id, None)], tag)
        if isinstance(st, ast.Try):
            return self._try(st, dangling, tag)
        if isinstance(st, (ast.FunctionDef, ast.ClassDef, ast.AsyncFunctionDef)):
            n = self._simple(st, dangling, tag)
            return [(n.id, None)]
        n = self._simple(st, dangling, tag)
        if self._may_raise(st):
            self._exc_edges(n.id, self.any_class is not None and bool(self.any_class(st)))
        if self.raising is not None and self.raising(st) and not self._handlers and not self._finally:
            self._edge(n.id, self.raise_exit.id, 'exc')
        if self._has_yield(st):
            # generator may be closed / thrown into at the yield
            if not self._handlers and not self._finally:
                self._edge(n.id, self.raise_exit.id, 'exc')
        return [(n.id, None)]

    def _raise_from(self, nid, st):
        """Explicit raise: handlers that may catch it, else outwards."""
        exc_name = None
        if st.exc is not None:
            e = st.exc.func if isinstance(st.exc, ast.Call) else st.exc
            exc_name = e.id if isinstance(e, ast.Name) else (e.attr if isinstance(e, ast.Attribute) else None)
        depth = len(self._finally)
        for hids, catches_all, fdepth in reversed(self._handlers):
            d = self._through_finally([(nid, 'exc')], fdepth, 'raise') if fdepth < depth else [(nid, 'exc')]
            for h in hids:
                hn = self.nodes[h]
                names = _handler_names(hn.ast)
                if catches_all or exc_name is None or names is None or exc_name in names:
                    self._connect(d, h)
            depth = min(depth, fdepth)
            if catches_all:
                return
            # if a handler names exactly this exception it is caught here
            if exc_name is not None and any(exc_name in (_handler_names(self.nodes[h].ast) or ()) for h in hids):
                return
        d = self._through_finally([(nid, 'exc')], 0, 'raise')
        self._connect(d, self.raise_exit.id)

    def _try(self, st, dangling, tag):
        fdepth = len(self._finally)
        if st.finalbody:
            self._finally.append(st.finalbody)
        handler_nodes = []
        catches_all = False
        for h in st.handlers:
            hn = self._new('handler', h, 'except')
            handler_nodes.append(hn)
            names = _handler_names(h)
            if names is None or 'BaseException' in names:
                catches_all = 2
            elif 'Exception' in names:
                catches_all = catches_all or True
        if handler_nodes:
            self._handlers.append(([h.id for h in handler_nodes], catches_all, len(self._finally)))
        body_out = self._seq(st.body, dangling, tag)
        if handler_nodes:
            self._handlers.pop()
        else_out = self._seq(st.orelse, body_out, tag)
        outs = list(else_out)
        for hn, h in zip(handler_nodes, st.handlers):
            outs.extend(self._seq(h.body, [(hn.id, None)], tag))
        if st.finalbody:
            self._finally.pop()
            outs = self._seq(st.finalbody, outs, 'finally(normal)')
        return outs

    @staticmethod
    def _contains_call(node):
        return any(isinstance(n, (ast.Call, ast.Subscript, ast.Attribute)) for n in ast.walk(node))

    @staticmethod
    def _may_raise(st):
        return any(isinstance(n, (ast.Call, ast.Subscript, ast.Yield, ast.YieldFrom, ast.Attribute, ast.BinOp))
                   for n in ast.walk(st))

    @staticmethod
    def _has_yield(st):
        return any(isinstance(n, (ast.Yield, ast.YieldFrom)) for n in ast.walk(st))

    # ------------------------------------------------------------- queries
    def reachable(self, start, skip_edges=(), skip_nodes=(), labels=None):
        seen = set()
        stack = [start]
        skip_edges = set(skip_edges)
        skip_nodes = set(skip_nodes)
        while stack:
            n = stack.pop()
            if n in seen or n in skip_nodes:
                continue
            seen.add(n)
            for m, lab in self.succ[n]:
                if (n, m, lab) in skip_edges or (n, m) in skip_edges:
                    continue
                if labels is not None and lab not in labels:
                    continue
                stack.append(m)
        return seen

    def dominators(self):
        ids = [n.id for n in self.nodes]
        reach = self.reachable(self.entry.id)
        dom = {i: set(reach) for i in reach}
        dom[self.entry.id] = {self.entry.id}
        changed = True
        while changed:
            changed = False
            for i in reach:
                if i == self.entry.id:
                    continue
                ps = [p for p, _ in self.pred[i] if p in reach]
                new = set(reach)
                for p in ps:
                    new &= dom[p]
                new |= {i}
                if new != dom[i]:
                    dom[i] = new
                    changed = True
        return dom

    def dominates(self, a, b, dom=None):
        dom = dom or self.dominators()
        return b in dom and a in dom[b]

    def must_pass(self, through, src, dst, skip_edges=()):
        """Every path src->dst passes a node in `through` (i.e. dst unreachable once they are removed)."""
        r = self.reachable(src, skip_edges=skip_edges, skip_nodes=set(through))
        return dst not in r

    def paths(self, src, dsts, limit=4000, skip_nodes=(), edge_bound=1):
        """Enumerate paths src->any of dsts, each edge used at most edge_bound times."""
        out = []
        dsts = set(dsts)
        skip = set(skip_nodes)

        def rec(n, path, used):
            if len(out) >= limit:
                return
            if n in dsts:
                out.append(list(path))
                return
            for m, lab in self.succ[n]:
                if m in skip:
                    continue
                k = (n, m, lab)
                if used.get(k, 0) >= edge_bound:
                    continue
                used[k] = used.get(k, 0) + 1
                path.append(m)
                rec(m, path, used)
                path.pop()
                used[k] -= 1
        rec(src, [src], {})
        return out

    def stmt_nodes(self, pred=None):
        return [n for n in self.nodes if n.ast is not None and (pred is None or pred(n))]

    def nodes_for(self, astnode):
        return [n for n in self.nodes if n.ast is astnode]

    def find(self, pred):
        return [n for n in self.nodes if n.ast is not None and pred(n.ast)]


def _handler_names(h):
    if h is None or h.type is None:
        return None
    t = h.type
    elts = t.elts if isinstance(t, ast.Tuple) else [t]
    out = []
    for e in elts:
        if isinstance(e, ast.Name):
            out.append(e.id)
        elif isinstance(e, ast.Attribute):
            out.append(e.attr)
        else:
            return None
    return out


def calls_in(node):
    """All ast.Call nodes in a statement (not descending into nested defs)."""
    out = []
    stack = [node]
    while stack:
        n = stack.pop()
        if isinstance(n, ast.Call):
            out.append(n)
        for c in ast.iter_child_nodes(n):
            if isinstance(c, (ast.FunctionDef, ast.AsyncFunctionDef, ast.Lambda, ast.ClassDef)) and c is not node:
                continue
            stack.append(c)
    return out


def own_exprs(st):
    """The expressions that belong to the CFG node of statement `st` itself (test of an If / iter of a For...)."""
    if isinstance(st, ast.If) or isinstance(st, ast.While):
        return [st.test]
    if isinstance(st, ast.For):
        return [st.iter, st.target]
    if isinstance(st, ast.With):
        return [i.context_expr for i in st.items]
    if isinstance(st, ast.Try):
        return []
    if isinstance(st, ast.ExceptHandler):
        return [st.type] if st.type is not None else []
    if isinstance(st, (ast.FunctionDef, ast.ClassDef, ast.AsyncFunctionDef)):
        return []
    return [st]
