"""Result collection, known-findings matching, evidence and replay files, exit codes.

Exit codes:  0 = every rule instance evaluated and holds (or is a listed known finding)
             1 = at least one definite violation not listed as known (prints VIOLATION property=<id> replay=<path>)
             2 = analysis error: anchor vanished / instance floor not met / unmodelled construct (prints ANALYSIS-ERROR)
"""
import hashlib
import json
import os
import sys
import time
import traceback

from .loader import AnalysisError

VERIF = os.path.dirname(os.path.dirname(os.path.abspath(__file__)))


def _short(x, n=400):
    s = x if isinstance(x, str) else json.dumps(x, default=str)
    return s if len(s) <= n else s[:n] + '...'


class Finding(object):
    def __init__(self, prop, rule, construct, stmt, message, where=None, expected=None, found=None, scenario=None):
        self.prop = prop
        self.rule = rule
        self.construct = construct      # qualified construct, e.g. PGPSignature.hashdata
        self.stmt = stmt                # normalised offending statement / term (never a line number)
        self.message = message
        self.where = where
        self.expected = expected
        self.found = found
        self.scenario = scenario

    def key(self):
        return (self.prop, self.rule, self.construct, self.stmt)

    def as_dict(self):
        return {'property': self.prop, 'rule': self.rule, 'construct': self.construct, 'statement': self.stmt,
                'message': self.message, 'where': self.where, 'expected': self.expected, 'found': self.found,
                'scenario': self.scenario}


class Report(object):
    def __init__(self, prop, tier='quick', seed=0, root='/repo'):
        self.prop = prop
        self.tier = tier
        self.seed = seed
        self.root = root
        self.t0 = time.time()
        self.instances = []      # dicts: rule, construct, scenario, status(ok|violation|known), detail
        self.findings = []
        self.errors = []
        self.rules = {}          # rule id -> description
        self.floors = {}         # rule id -> (min instances, counted)
        self.assumptions = []
        self.extra = {}
        self.analysed = {'functions': set(), 'classes': set(), 'call_sites': 0, 'paths': 0}
        self.selftest = None

    # ------------------------------------------------------------ declaration
    def rule(self, rid, desc, floor=None):
        self.rules[rid] = desc
        if floor is not None:
            self.floors[rid] = [floor, 0]

    def assume(self, text):
        if text not in self.assumptions:
            self.assumptions.append(text)

    def saw(self, fn=None, cls=None):
        if fn is not None:
            self.analysed['functions'].add(getattr(fn, 'qualname', str(fn)))
        if cls is not None:
            self.analysed['classes'].add(getattr(cls, 'name', str(cls)))

    # ------------------------------------------------------------ outcomes
    def _count(self, rid):
        if rid in self.floors:
            self.floors[rid][1] += 1

    def ok(self, rid, construct, detail=None, scenario=None, nontrivial=True):
        self._count(rid)
        self.instances.append({'rule': rid, 'construct': construct, 'scenario': scenario, 'status': 'ok',
                               'detail': detail, 'nontrivial': nontrivial})

    def violation(self, rid, construct, stmt, message, where=None, expected=None, found=None, scenario=None):
        self._count(rid)
        f = Finding(self.prop, rid, construct, stmt, message, where, expected, found, scenario)
        self.findings.append(f)
        self.instances.append({'rule': rid, 'construct': construct, 'scenario': scenario, 'status': 'violation',
                               'detail': message, 'nontrivial': True})

    def error(self, rid, message):
        self.errors.append({'rule': rid, 'message': message})

    def check(self, cond, rid, construct, stmt, message, where=None, expected=None, found=None, scenario=None, detail=None):
        if cond:
            self.ok(rid, construct, detail or message, scenario)
        else:
            self.violation(rid, construct, stmt, message, where, expected, found, scenario)
        return cond

    # ------------------------------------------------------------ finishing
    def _known(self):
        path = os.path.join(VERIF, 'known_findings.json')
        if not os.path.exists(path):
            return []
        with open(path) as fh:
            data = json.load(fh)
        return [k for k in data.get('known', []) if k.get('property') == self.prop]

    def finish(self, write=True):
        for rid, (floor, n) in sorted(self.floors.items()):
            if n < floor:
                self.error(rid, 'instance count %d below the floor %d confirmed by hand (rule would pass vacuously)' % (n, floor))
        known = self._known()
        unknown, matched = [], []
        for f in self.findings:
            hit = None
            for k in known:
                if k.get('rule') == f.rule and k.get('construct') == f.construct and k.get('statement') == f.stmt:
                    hit = k
                    break
            if hit is not None:
                matched.append((f, hit))
            else:
                unknown.append(f)
        for f, k in matched:
            print('KNOWN-FINDING: property=%s rule=%s construct=%s %s' % (self.prop, f.rule, f.construct, k.get('what', f.message)))
        status = 0
        replay_paths = []
        if self.errors:
            status = 2
        if unknown:
            status = 1
        wall = time.time() - self.t0
        nontriv = set()
        for i in self.instances:
            if i.get('nontrivial'):
                nontriv.add((i['rule'], i['construct'], json.dumps(i.get('scenario'), sort_keys=True, default=str)))
        samples = []
        seen_rules = set()
        for i in self.instances:
            if i['rule'] not in seen_rules or i['status'] != 'ok':
                seen_rules.add(i['rule'])
                samples.append({'rule': i['rule'], 'construct': i['construct'], 'scenario': i.get('scenario'),
                                'status': i['status'], 'detail': _short(i.get('detail') or '')})
            if len(samples) >= 60:
                break
        obligations = len(self.instances)
        discharged = sum(1 for i in self.instances if i['status'] == 'ok') + len(matched)
        ev = {
            'property_id': self.prop,
            'tier': self.tier,
            'seed': int(self.seed),
            'level': 'other',
            'coverage': {
                'explanation': 'Static analysis of %s/pgpy/**/*.py (ast only; nothing imported or executed). Rules: %s'
                               % (self.root, '; '.join('%s = %s' % (k, v) for k, v in sorted(self.rules.items()))),
                'evaluations': obligations,
                'distinct_nontrivial': len(nontriv),
                'rule': 'one evaluation = one rule instance (rule id x construct x scenario) fully evaluated on the current '
                        'source; distinct = distinct (rule, construct, scenario) triples; non-trivial = the instance matched '
                        'real code (an anchor function / call site / class), i.e. not a vacuous pass',
                'samples': samples,
                'obligations': obligations,
                'discharged': discharged,
                'exhaustive': False,
                'rules': self.rules,
                'floors': {k: {'floor': v[0], 'counted': v[1]} for k, v in self.floors.items()},
                'analysed_functions': sorted(self.analysed['functions']),
                'analysed_classes': sorted(self.analysed['classes']),
                'paths_explored': self.analysed['paths'],
                'call_sites_examined': self.analysed['call_sites'],
                'known_findings_matched': [f.as_dict() for f, _ in matched],
                'violations': [f.as_dict() for f in unknown],
                'analysis_errors': self.errors,
                'source_root': self.root,
            },
            'assumptions': self.assumptions,
            'wall_s': round(wall, 3),
            'violations': len(unknown),
        }
        ev['coverage'].update(self.extra)
        if self.selftest is not None:
            ev['coverage']['selftest'] = self.selftest
        if write:
            evdir = os.path.join(VERIF, 'evidence')
            os.makedirs(os.path.join(evdir, 'replay'), exist_ok=True)
            for f in unknown:
                d = f.as_dict()
                dg = hashlib.sha256(json.dumps(d, sort_keys=True, default=str).encode()).hexdigest()[:12]
                rp = os.path.join(evdir, 'replay', '%s-%s.json' % (self.prop, dg))
                with open(rp, 'w') as fh:
                    json.dump(d, fh, indent=1, default=str)
                replay_paths.append(rp)
            with open(os.path.join(evdir, '%s.json' % self.prop), 'w') as fh:
                json.dump(ev, fh, indent=1, default=str)
        for e in self.errors:
            print('ANALYSIS-ERROR property=%s rule=%s %s' % (self.prop, e['rule'], e['message']))
        for f, rp in zip(unknown, replay_paths or [None] * len(unknown)):
            print('FINDING property=%s rule=%s construct=%s at %s: %s' % (self.prop, f.rule, f.construct, f.where, f.message))
            if f.expected is not None or f.found is not None:
                print('   expected: %s' % _short(f.expected, 600))
                print('   found:    %s' % _short(f.found, 600))
            print('VIOLATION property=%s replay=%s' % (self.prop, rp))
        print('%s %s: %d rule instances, %d ok, %d known findings, %d violations, %d analysis errors, %.2fs'
              % (self.prop, self.tier, obligations, sum(1 for i in self.instances if i['status'] == 'ok'),
                 len(matched), len(unknown), len(self.errors), wall))
        return status


def run_property(prop, fn, tier='quick', seed=0, root='/repo', write=True):
    """Run a property's rule function with all tracebacks mapped to exit 2."""
    rep = Report(prop, tier, seed, root)
    try:
        fn(rep)
    except AnalysisError as ex:
        rep.error('anchor', str(ex))
    except Exception as ex:  # a checker bug must never look like a violation
        tb = traceback.format_exc()
        rep.error('internal', '%s: %s | %s' % (type(ex).__name__, ex, tb.strip().splitlines()[-3:]))
        sys.stderr.write(tb)
    return rep, rep.finish(write=write)
