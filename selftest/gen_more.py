# Loaded by gen.py (M, T and the file-name constants are injected).  One block per property.

# =============================================================================================== C12
M('C12', 'preload-i-plus-1', FL, "            _h.update(b'\\x00' * i)", "            _h.update(b'\\x00' * (i + 1))", 'C12.1')
M('C12', 'pass-before-salt', FL, "        hashdata = ((hsalt + hpass) * hcount) + (hsalt + hpass)[:hleft]", "        hashdata = ((hpass + hsalt) * hcount) + (hpass + hsalt)[:hleft]", 'C12.1')
M('C12', 'truncate-quarter', FL, "        return b''.join(hc.digest() for hc in h)[:(keylen // 8)]", "        return b''.join(hc.digest() for hc in h)[:(keylen // 4)]", 'C12.1')
M('C12', 'ctx-floor', FL, "        ctx = int(math.ceil((keylen / hashlen)))", "        ctx = int(math.floor((keylen / hashlen))) or 1", 'C12.2')
M('C12', 'count-ignored', FL, "        if self.specifier == String2KeyType.Iterated and self.count > len(hsalt + hpass):\n            count = self.count\n", "", 'C12.1')
M('C12', 'salt-for-simple', FL, "        if self.specifier >= String2KeyType.Salted:\n            hsalt = bytes(self.salt)", "        if self.specifier >= String2KeyType.Simple:\n            hsalt = bytes(self.salt)", 'C12.1')
M('C12', 'count-bias-5', FL, "        return (16 + (self._count & 15)) << ((self._count >> 4) + 6)", "        return (16 + (self._count & 15)) << ((self._count >> 4) + 5)", 'C12.3')
M('C12', 'count-mask-7', FL, "        return (16 + (self._count & 15)) << ((self._count >> 4) + 6)", "        return (16 + (self._count & 7)) << ((self._count >> 4) + 6)", 'C12.3')
M('C12', 'hleft-off', FL, "        hleft = count - (hcount * len(hsalt + hpass))", "        hleft = count - (hcount * len(hpass))", 'C12.1')
M('C12', 'reversed-digests', FL, "        return b''.join(hc.digest() for hc in h)[:(keylen // 8)]", "        return b''.join(hc.digest() for hc in reversed(h))[:(keylen // 8)]", 'C12.1')
M('C12', 'writer-skips-salt', FL, "            if self.specifier >= String2KeyType.Salted:\n                _bytes += self.salt\n", "            if self.specifier > String2KeyType.Salted:\n                _bytes += self.salt\n", 'C12.4')
M('C12', 'reader-salt-7', FL, "                self.salt = packet[:8]\n                del packet[:8]", "                self.salt = packet[:7]\n                del packet[:7]", 'C12.4')
M('C12', 'count-setter-256', FL, "        if val < 0 or val > 255:  # pragma: no cover", "        if val < 0 or val > 256:  # pragma: no cover", 'C12.3')
M('C12', 'hash-update-order', FL, "            _h.update(b'\\x00' * i)\n            _h.update(hashdata)", "            _h.update(hashdata)\n            _h.update(b'\\x00' * i)", 'C12.1')
T('C12', 'twin-mod', FL, "        hleft = count - (hcount * len(hsalt + hpass))", "        hleft = count % len(hsalt + hpass)")
T('C12', 'twin-one-update', FL, "            _h.update(b'\\x00' * i)\n            _h.update(hashdata)", "            _h.update((b'\\x00' * i) + hashdata)")
T('C12', 'twin-count-mask-hex', FL, "        return (16 + (self._count & 15)) << ((self._count >> 4) + 6)", "        return (0x10 | (self._count & 0x0F)) << (6 + (self._count >> 4))")

# =============================================================================================== C18
M('C18', 'fp-without-pkalg', PK, "        fp.update(self.int_to_bytes(self.pkalg))\n", "", 'C18.1')
M('C18', 'fp-0x98', PK, "        fp.update(b'\\x99' + bcde_len[:1] + bcde_len[-1:])", "        fp.update(b'\\x98' + bcde_len[:1] + bcde_len[-1:])", 'C18.1')
M('C18', 'fp-len-5', PK, "        bcde_len = self.int_to_bytes(6 + plen, 2)", "        bcde_len = self.int_to_bytes(5 + plen, 2)", 'C18.1')
M('C18', 'publen-len-self', FL, "    def publen(self):\n        return super(PrivKey, self).__len__()", "    def publen(self):\n        return len(self)", 'C18.3')
M('C18', 'ecdh-publen-dropped', FL, "    def publen(self):\n        return ECDHPub.__len__(self)\n\n", "", 'C18.3')
M('C18', 'keyid-8', TY, "        return self[-16:]", "        return self[-8:]", 'C18.4')
M('C18', 'time-timestamp-one-site', PK, "        fp.update(self.int_to_bytes(calendar.timegm(self.created.utctimetuple()), 4))", "        fp.update(self.int_to_bytes(calendar.timegm(self.created.timetuple()), 4))", 'C18')
M('C18', 'fp-md5', PK, "        fp = hashlib.new('sha1')", "        fp = hashlib.new('md5')", 'C18.1')
M('C18', 'fp-material-unsliced-private', PK, "        fp.update(self.keymaterial.__bytearray__()[:plen])", "        fp.update(self.keymaterial.__bytearray__())", 'C18.1')
M('C18', 'export-alg-before-time', PK, "        _bytes += self.int_to_bytes(calendar.timegm(self.created.utctimetuple()), 4)\n        _bytes += self.int_to_bytes(self.pkalg)\n        _bytes += self.keymaterial.__bytearray__()",
  "        _bytes += self.int_to_bytes(self.pkalg)\n        _bytes += self.int_to_bytes(calendar.timegm(self.created.utctimetuple()), 4)\n        _bytes += self.keymaterial.__bytearray__()", 'C18.2')
M('C18', 'fp-lower', PK, "        return Fingerprint(fp.hexdigest().upper())", "        return Fingerprint(fp.hexdigest()[:-1].upper() + '0')", 'C18.1')
M('C18', 'time-3-octets', PK, "        fp.update(self.int_to_bytes(calendar.timegm(self.created.utctimetuple()), 4))", "        fp.update(self.int_to_bytes(calendar.timegm(self.created.utctimetuple()), 3))", 'C18.1')
T('C18', 'twin-single-update', PK, "        fp.update(b'\\x04')\n", "        fp.update(bytes([4]))\n" if False else "        fp.update(b'\\x04' + b'')\n")
T('C18', 'twin-bcde-direct', PK, "        fp.update(b'\\x99' + bcde_len[:1] + bcde_len[-1:])", "        fp.update(b'\\x99')\n        fp.update(bcde_len[:1] + bcde_len[-1:])")
T('C18', 'twin-plen-inline', PK, "        fp.update(self.keymaterial.__bytearray__()[:plen])", "        material = self.keymaterial.__bytearray__()\n        fp.update(material[:plen])")

# =============================================================================================== C13
M('C13', 'constant-salt', PK, "        self.s2k.salt = bytearray(os.urandom(8))\n        esk = self.s2k.derive_key(passphrase)", "        self.s2k.salt = bytearray(b'\\x00' * 8)\n        esk = self.s2k.derive_key(passphrase)", 'C13.2')
M('C13', 'salt-from-passphrase', PK, "        self.s2k.salt = bytearray(os.urandom(8))\n        esk = self.s2k.derive_key(passphrase)", "        self.s2k.salt = bytearray(hashlib.new('sha1', passphrase.encode()).digest()[:8])\n        esk = self.s2k.derive_key(passphrase)", 'C13.2')
M('C13', 'salt-kept-if-present', PK, "        self.s2k.salt = bytearray(os.urandom(8))\n        esk = self.s2k.derive_key(passphrase)", "        if not self.s2k.salt:\n            self.s2k.salt = bytearray(os.urandom(8))\n        esk = self.s2k.derive_key(passphrase)", 'C13.2')
M('C13', 'gen-key-zero', CO, "    def gen_key(self):\n        return os.urandom(self.key_size // 8)", "    def gen_key(self):\n        return bytes(self.key_size // 8)", 'C13.1')
M('C13', 'gen-key-blocksize', CO, "    def gen_key(self):\n        return os.urandom(self.key_size // 8)", "    def gen_key(self):\n        return os.urandom(self.block_size // 8)", 'C13.1')
M('C13', 'gen-iv-default-arg', CO, "    def gen_iv(self):\n        return os.urandom(self.block_size // 8)", "    def gen_iv(self, _iv=os.urandom(16)):\n        return _iv[:self.block_size // 8]", 'C13.1')
M('C13', 'module-cached-session-key', PGP, "        if sessionkey is None:\n            sessionkey = cipher_algo.gen_key()\n        skesk.encrypt_sk(passphrase, sessionkey)",
  "        if sessionkey is None:\n            sessionkey = _SESSION_CACHE.setdefault(cipher_algo, cipher_algo.gen_key())\n        skesk.encrypt_sk(passphrase, sessionkey)", 'C13.2',
  more=[(PGP, "__all__ = ['PGPSignature',", "_SESSION_CACHE = {}\n\n__all__ = ['PGPSignature',")])
M('C13', 'session-key-from-other-cipher', PGP, "        if sessionkey is None:\n            sessionkey = cipher_algo.gen_key()\n\n        # set up a new PKESessionKeyV3",
  "        if sessionkey is None:\n            sessionkey = pref_cipher.gen_key()\n\n        # set up a new PKESessionKeyV3", 'C13.2')
M('C13', 'ephemeral-on-class', FL, "            v = x25519.X25519PrivateKey.generate()\n            x = v.public_key().public_bytes(encoding=serialization.Encoding.Raw, format=serialization.PublicFormat.Raw)\n            ct.p = ECPoint.from_values(km.oid.key_size, ECPointFormat.Native, x)\n            s = v.exchange(km.__pubkey__())",
  "            if getattr(cls, '_eph', None) is None:\n                cls._eph = x25519.X25519PrivateKey.generate()\n            v = cls._eph\n            x = v.public_key().public_bytes(encoding=serialization.Encoding.Raw, format=serialization.PublicFormat.Raw)\n            ct.p = ECPoint.from_values(km.oid.key_size, ECPointFormat.Native, x)\n            s = v.exchange(km.__pubkey__())", 'C13.2')
M('C13', 'session-key-appended', PGP, "        _m |= pkesk\n\n        return _m", "        _m |= pkesk\n        _m._sessionkeys.append(sessionkey)\n\n        return _m", 'C13.3')
M('C13', 'session-key-stored', PGP, "        skesk.encrypt_sk(passphrase, sessionkey)\n        del passphrase", "        skesk.encrypt_sk(passphrase, sessionkey)\n        self._last_sessionkey = sessionkey\n        del passphrase", 'C13.3')
M('C13', 'keyblob-iv-reused', FL, "        self.s2k.iv = enc_alg.gen_iv()\n", "        self.s2k.iv = self.s2k.iv or enc_alg.gen_iv()\n", 'C13.2')
M('C13', 'keyblob-salt-reused', FL, "        self.s2k.salt = bytearray(os.urandom(8))\n        self.s2k.count = hash_alg.tuned_count", "        self.s2k.salt = self.s2k.salt or bytearray(os.urandom(8))\n        self.s2k.count = hash_alg.tuned_count", 'C13.2')
M('C13', 'prefix-from-key', PK, "        iv = alg.gen_iv()\n        data = iv + iv[-2:] + data", "        iv = bytes(key[:alg.block_size // 8])\n        data = iv + iv[-2:] + data", 'C13.2')
M('C13', 'skesk-wrong-key-to-data', PGP, "            skedata.encrypt(sessionkey, cipher_algo, self.__bytes__())\n            msg |= skedata", "            skedata.encrypt(cipher_algo.gen_key(), cipher_algo, self.__bytes__())\n            msg |= skedata", 'C13.2')
M('C13', 'import-random', CO, "import os\nimport zlib", "import os\nimport random\nimport zlib", 'C13.1')
M('C13', 'symkey-logged', PK, "        self.ct = self.ct.encrypt(encrypter, *encargs)\n        self.update_hlen()", "        self.ct = self.ct.encrypt(encrypter, *encargs)\n        warnings.warn('wrapped %r' % (symkey,))\n        self.update_hlen()", 'C13.3')
T('C13', 'twin-salt-temp', PK, "        self.s2k.salt = bytearray(os.urandom(8))\n        esk = self.s2k.derive_key(passphrase)", "        salt = os.urandom(8)\n        self.s2k.salt = bytearray(salt)\n        esk = self.s2k.derive_key(passphrase)")
T('C13', 'twin-genkey-temp', CO, "    def gen_key(self):\n        return os.urandom(self.key_size // 8)", "    def gen_key(self):\n        nbytes = self.key_size // 8\n        return os.urandom(nbytes)")
T('C13', 'twin-sessionkey-not-none', PGP, "        if sessionkey is None:\n            sessionkey = cipher_algo.gen_key()\n        skesk.encrypt_sk(passphrase, sessionkey)", "        if sessionkey is not None:\n            pass\n        else:\n            sessionkey = cipher_algo.gen_key()\n        skesk.encrypt_sk(passphrase, sessionkey)")

# ---- C13 hardening: refactorings that must stay silent, and new mutants for the rewritten rules
T('C13', 'twin-gen-iv-shift', CO, "    def gen_iv(self):\n        return os.urandom(self.block_size // 8)", "    def gen_iv(self):\n        noctets = self.block_size >> 3\n        return os.urandom(int(noctets))")
M('C13', 'gen-iv-half-block', CO, "    def gen_iv(self):\n        return os.urandom(self.block_size // 8)", "    def gen_iv(self):\n        return os.urandom(self.block_size >> 4)", 'C13.1')
KEY_ENC = ("        pkesk = PKESessionKeyV3()\n        pkesk.encrypter = bytearray(binascii.unhexlify(self.fingerprint.keyid.encode('latin-1')))\n        pkesk.pkalg = self.key_algorithm\n"
           "        pkesk.encrypt_sk(self._key, cipher_algo, sessionkey)\n\n        if message.is_encrypted:  # pragma: no cover\n            _m = message\n\n        else:\n            _m = PGPMessage()\n"
           "            skedata = IntegrityProtectedSKEDataV1()\n            skedata.encrypt(sessionkey, cipher_algo, message.__bytes__())\n            _m |= skedata\n\n        _m |= pkesk\n\n        return _m\n")
T('C13', 'twin-key-encrypt-renamed-locals', PGP, KEY_ENC,
  "        esk = PKESessionKeyV3()\n        esk.encrypter = bytearray(binascii.unhexlify(self.fingerprint.keyid.encode('latin-1')))\n        esk.pkalg = self.key_algorithm\n"
  "        esk.encrypt_sk(self._key, symalg=cipher_algo, symkey=sessionkey)\n\n        if message.is_encrypted:  # pragma: no cover\n            out = message\n\n        else:\n            out = PGPMessage()\n"
  "            container = IntegrityProtectedSKEDataV1()\n            serialised = message.__bytes__()\n            container.encrypt(sessionkey, cipher_algo, serialised)\n            out |= container\n\n        out |= esk\n\n        return out\n")
M('C13', 'container-key-redrawn-when-generated', PGP, "        if sessionkey is None:\n            sessionkey = cipher_algo.gen_key()\n\n        # set up a new PKESessionKeyV3",
  "        generated = sessionkey is None\n        if generated:\n            sessionkey = cipher_algo.gen_key()\n\n        # set up a new PKESessionKeyV3", 'C13.2',
  more=[(PGP, "            skedata.encrypt(sessionkey, cipher_algo, message.__bytes__())", "            skedata.encrypt(cipher_algo.gen_key() if generated else sessionkey, cipher_algo, message.__bytes__())")])
KB = ("        self.s2k.iv = enc_alg.gen_iv()\n        self.s2k.halg = hash_alg\n        self.s2k.salt = bytearray(os.urandom(8))\n        self.s2k.count = hash_alg.tuned_count\n")
T('C13', 'twin-keyblob-temporaries', FL, "    def encrypt_keyblob(self, passphrase, enc_alg, hash_alg):", "    def encrypt_keyblob(self, passphrase, cipher, digest):",
  more=[(FL, "        self.s2k.encalg = enc_alg\n", "        self.s2k.encalg = cipher\n"),
        (FL, KB, "        fresh_iv = cipher.gen_iv()\n        self.s2k.iv = fresh_iv\n        self.s2k.halg = digest\n        fresh_salt = os.urandom(8)\n        self.s2k.salt = bytearray(fresh_salt)\n        self.s2k.count = digest.tuned_count\n"),
        (FL, "        self.encbytes = bytearray(_encrypt(bytes(pt), bytes(sessionkey), enc_alg, bytes(self.s2k.iv)))", "        self.encbytes = bytearray(_encrypt(bytes(pt), bytes(sessionkey), cipher, iv=bytes(fresh_iv)))")])
M('C13', 'keyblob-encrypts-under-second-iv', FL, "        self.encbytes = bytearray(_encrypt(bytes(pt), bytes(sessionkey), enc_alg, bytes(self.s2k.iv)))",
  "        self.encbytes = bytearray(_encrypt(bytes(pt), bytes(sessionkey), enc_alg, bytes(enc_alg.gen_iv())))", 'C13.2')
M('C13', 'keyblob-salt-after-derive', FL, "        self.s2k.salt = bytearray(os.urandom(8))\n        self.s2k.count = hash_alg.tuned_count\n", "        self.s2k.count = hash_alg.tuned_count\n", 'C13.2',
  more=[(FL, "        sessionkey = self.s2k.derive_key(passphrase)\n        del passphrase\n\n        pt = bytearray()", "        sessionkey = self.s2k.derive_key(passphrase)\n        self.s2k.salt = bytearray(os.urandom(8))\n        del passphrase\n\n        pt = bytearray()")])
T('C13', 'twin-skesk-salt-helper', PK, "        self.s2k.salt = bytearray(os.urandom(8))\n        esk = self.s2k.derive_key(passphrase)", "        self.s2k.salt = self._fresh_salt()\n        esk = self.s2k.derive_key(passphrase)",
  more=[(PK, "    def encrypt_sk(self, passphrase, sk):\n        # generate the salt", "    @staticmethod\n    def _fresh_salt():\n        return bytearray(os.urandom(_SALT_OCTETS))\n\n    def encrypt_sk(self, passphrase, sk):\n        # generate the salt"),
        (PK, "class SKESessionKeyV4(SKESessionKey):\n", "_SALT_OCTETS = 8\n\n\nclass SKESessionKeyV4(SKESessionKey):\n")])
M('C13', 'skesk-salt-four-octets-doubled', PK, "        self.s2k.salt = bytearray(os.urandom(8))\n        esk = self.s2k.derive_key(passphrase)", "        self.s2k.salt = bytearray(os.urandom(4) * 2)\n        esk = self.s2k.derive_key(passphrase)", 'C13.2')
T('C13', 'twin-seipd-params-renamed', PK, "    def encrypt(self, key, alg, data):\n        iv = alg.gen_iv()\n        data = iv + iv[-2:] + data\n",
  "    def encrypt(self, sessionkey, cipher, data):\n        key, alg = sessionkey, cipher\n        rnd = alg.gen_iv()\n        data = b''.join([rnd, rnd[-2:], data])\n")
ECDH_W = ("            v = ec.generate_private_key(km.oid.curve(), default_backend())\n            x = MPI(v.public_key().public_numbers().x)\n            y = MPI(v.public_key().public_numbers().y)\n"
          "            ct.p = ECPoint.from_values(km.oid.key_size, ECPointFormat.Standard, x, y)\n            s = v.exchange(ec.ECDH(), km.__pubkey__())\n")
T('C13', 'twin-ecdh-renamed-hoisted', FL, ECDH_W,
  "            eph = ec.generate_private_key(km.oid.curve(), default_backend())\n            numbers = eph.public_key().public_numbers()\n            px, py = MPI(numbers.x), MPI(numbers.y)\n"
  "            ct.p = ECPoint.from_values(km.oid.key_size, ECPointFormat.Standard, px, py)\n            recipient = km.__pubkey__()\n            s = eph.exchange(ec.ECDH(), recipient)\n")
M('C13', 'ecdh-point-of-another-key', FL, ECDH_W,
  "            v = ec.generate_private_key(km.oid.curve(), default_backend())\n            w = ec.generate_private_key(km.oid.curve(), default_backend())\n            x = MPI(w.public_key().public_numbers().x)\n            y = MPI(w.public_key().public_numbers().y)\n"
  "            ct.p = ECPoint.from_values(km.oid.key_size, ECPointFormat.Standard, x, y)\n            s = v.exchange(ec.ECDH(), km.__pubkey__())\n", 'C13.2')
M('C13', 'ecdh-exchange-with-own-point', FL, "            s = v.exchange(ec.ECDH(), km.__pubkey__())\n", "            s = v.exchange(ec.ECDH(), v.public_key())\n", 'C13.2')
M('C13', 'ecdh-fixed-curve', FL, "            v = ec.generate_private_key(km.oid.curve(), default_backend())\n", "            v = ec.generate_private_key(ec.SECP256R1(), default_backend())\n", 'C13.2')
M('C13', 'session-key-copy-kept', PGP, "        skesk.encrypt_sk(passphrase, sessionkey)\n        del passphrase", "        skesk.encrypt_sk(passphrase, sessionkey)\n        skesk._plain = bytes(sessionkey)\n        del passphrase", 'C13.3')
M('C13', 'pkesk-keeps-m-value', PK, "        self.ct = self.ct.encrypt(encrypter, *encargs)\n        self.update_hlen()", "        self.ct = self.ct.encrypt(encrypter, *encargs)\n        self._m = bytes(m)\n        self.update_hlen()", 'C13.3')
M('C13', 'seipd-returns-key', PK, "        self.ct = _encrypt(data, key, alg)\n        self.update_hlen()\n", "        self.ct = _encrypt(data, key, alg)\n        self.update_hlen()\n        return bytearray(key)\n", 'C13.3')
T('C13', 'twin-pkesk-key-copied-for-sum', PK, "        m += self.int_to_bytes(sum(bytearray(symkey)) % 65536, 2)", "        octets = bytearray(symkey)\n        total = sum(octets)\n        m += self.int_to_bytes(total % 65536, 2)")

T('C13', 'twin-source-passed-by-reference', PK, "        self.s2k.salt = bytearray(os.urandom(8))\n        esk = self.s2k.derive_key(passphrase)", "        self.s2k.salt = bytearray(_draw(8))\n        esk = self.s2k.derive_key(passphrase)",
  more=[(PK, "class SKESessionKeyV4(SKESessionKey):\n", "def _draw(noctets, source=None):\n    return (source or os.urandom)(noctets) if source is not None else os.urandom(noctets)\n\n\nclass SKESessionKeyV4(SKESessionKey):\n")])
M('C13', 'salt-default-argument', PK, "    def encrypt_sk(self, passphrase, sk):\n        # generate the salt and derive the key to encrypt sk with from it\n        self.s2k.salt = bytearray(os.urandom(8))",
  "    def encrypt_sk(self, passphrase, sk, _salt=os.urandom(8)):\n        # generate the salt and derive the key to encrypt sk with from it\n        self.s2k.salt = bytearray(_salt)", 'C13.1')
M('C13', 'class-level-prefix', PK, "    __ver__ = 1\n\n    def __init__(self):\n        super(IntegrityProtectedSKEDataV1, self).__init__()", "    __ver__ = 1\n    _prefix = SymmetricKeyAlgorithm.AES256.gen_iv()\n\n    def __init__(self):\n        super(IntegrityProtectedSKEDataV1, self).__init__()", 'C13.1')

T('C13', 'twin-keyblob-chained-assign', FL, "        self.s2k.iv = enc_alg.gen_iv()\n        self.s2k.halg = hash_alg\n", "        self.s2k.iv = iv = enc_alg.gen_iv()\n        self.s2k.halg = hash_alg\n",
  more=[(FL, "enc_alg, bytes(self.s2k.iv)))", "enc_alg, bytes(iv)))")])
ECDH_X = ("            v = x25519.X25519PrivateKey.generate()\n            x = v.public_key().public_bytes(encoding=serialization.Encoding.Raw, format=serialization.PublicFormat.Raw)\n"
          "            ct.p = ECPoint.from_values(km.oid.key_size, ECPointFormat.Native, x)\n            s = v.exchange(km.__pubkey__())\n")
T('C13', 'twin-ecdh-arm-helper', FL, ECDH_X, "            ct.p, s = cls._x25519_agree(km)\n",
  more=[(FL, "    @classmethod\n    def encrypt(cls, pk, *args):\n        \"\"\"\n        For convenience, the synopsis of the encoding method is given below;",
         "    @staticmethod\n    def _x25519_agree(keymat):\n        eph = x25519.X25519PrivateKey.generate()\n        raw = eph.public_key().public_bytes(encoding=serialization.Encoding.Raw, format=serialization.PublicFormat.Raw)\n"
         "        point = ECPoint.from_values(keymat.oid.key_size, ECPointFormat.Native, raw)\n        return point, eph.exchange(keymat.__pubkey__())\n\n"
         "    @classmethod\n    def encrypt(cls, pk, *args):\n        \"\"\"\n        For convenience, the synopsis of the encoding method is given below;")])

KEYSIZE_TABLE = '        ks = {SymmetricKeyAlgorithm.IDEA: 128,\n              SymmetricKeyAlgorithm.TripleDES: 192,\n              SymmetricKeyAlgorithm.CAST5: 128,\n              SymmetricKeyAlgorithm.Blowfish: 128,\n              SymmetricKeyAlgorithm.AES128: 128,\n              SymmetricKeyAlgorithm.AES192: 192,\n              SymmetricKeyAlgorithm.AES256: 256,\n              SymmetricKeyAlgorithm.Twofish256: 256,\n              SymmetricKeyAlgorithm.Camellia128: 128,\n              SymmetricKeyAlgorithm.Camellia192: 192,\n              SymmetricKeyAlgorithm.Camellia256: 256}\n\n        if self in ks:\n            return ks[self]\n\n        raise NotImplementedError(repr(self))\n'
T('C13', 'twin-keysize-if-chain', CO, KEYSIZE_TABLE,
  "        if self in (SymmetricKeyAlgorithm.IDEA, SymmetricKeyAlgorithm.CAST5, SymmetricKeyAlgorithm.Blowfish, SymmetricKeyAlgorithm.AES128, SymmetricKeyAlgorithm.Camellia128):\n            return 128\n\n"
  "        if self in (SymmetricKeyAlgorithm.TripleDES, SymmetricKeyAlgorithm.AES192, SymmetricKeyAlgorithm.Camellia192):\n            return 192\n\n"
  "        if self in {SymmetricKeyAlgorithm.AES256, SymmetricKeyAlgorithm.Twofish256, SymmetricKeyAlgorithm.Camellia256}:\n            return 256\n\n        raise NotImplementedError(repr(self))\n")
M('C13', 'keysize-if-chain-aes192-in-128-arm', CO, KEYSIZE_TABLE,
  "        if self in (SymmetricKeyAlgorithm.IDEA, SymmetricKeyAlgorithm.CAST5, SymmetricKeyAlgorithm.Blowfish, SymmetricKeyAlgorithm.AES128, SymmetricKeyAlgorithm.AES192, SymmetricKeyAlgorithm.Camellia128):\n            return 128\n\n"
  "        if self in (SymmetricKeyAlgorithm.TripleDES, SymmetricKeyAlgorithm.Camellia192):\n            return 192\n\n"
  "        if self in {SymmetricKeyAlgorithm.AES256, SymmetricKeyAlgorithm.Twofish256, SymmetricKeyAlgorithm.Camellia256}:\n            return 256\n\n        raise NotImplementedError(repr(self))\n", 'C13.1')
T('C13', 'twin-keysize-get', CO, "        if self in ks:\n            return ks[self]\n\n        raise NotImplementedError(repr(self))\n\n    def gen_iv(self):",
  "        size = ks.get(self)\n        if size is None:\n            raise NotImplementedError(repr(self))\n        return size\n\n    def gen_iv(self):")
M('C13', 'keysize-tripledes-168', CO, "              SymmetricKeyAlgorithm.TripleDES: 192,\n              SymmetricKeyAlgorithm.CAST5: 128,", "              SymmetricKeyAlgorithm.TripleDES: 168,\n              SymmetricKeyAlgorithm.CAST5: 128,", 'C13.1')
M('C03', 'cipher-aes256-bound-to-camellia', CO, "              SymmetricKeyAlgorithm.AES256: algorithms.AES,", "              SymmetricKeyAlgorithm.AES256: algorithms.Camellia,", 'C03.4')

# =============================================================================================== C04
MDC_G = "        if not constant_time.bytes_eq(bytes(pt[-22:]), _expected_mdcbytes):\n            raise PGPDecryptionError(\"Decryption failed\")  # pragma: no cover\n"
M('C04', 'mdc-guard-deleted', PK, MDC_G, "", 'C04.1')
M('C04', 'mdc-guard-inverted', PK, "        if not constant_time.bytes_eq(bytes(pt[-22:]), _expected_mdcbytes):", "        if constant_time.bytes_eq(bytes(pt[-22:]), _expected_mdcbytes):", 'C04.1')
M('C04', 'mdc-guard-warn', PK, MDC_G, "        if not constant_time.bytes_eq(bytes(pt[-22:]), _expected_mdcbytes):\n            warnings.warn(\"Decryption failed\")\n", 'C04.1')
M('C04', 'mdc-hash-range', PK, "        _expected_mdcbytes = b'\\xd3\\x14' + hashlib.new('SHA1', pt[:-20]).digest()", "        _expected_mdcbytes = b'\\xd3\\x14' + hashlib.new('SHA1', pt[:-22]).digest()", 'C04.1')
M('C04', 'mdc-compare-20', PK, "        if not constant_time.bytes_eq(bytes(pt[-22:]), _expected_mdcbytes):", "        if not constant_time.bytes_eq(bytes(pt[-20:]), _expected_mdcbytes[2:]):", 'C04.1')
M('C04', 'mdc-after-return', PK, MDC_G + "\n        iv = bytes(pt[:alg.block_size // 8])", "        iv = bytes(pt[:alg.block_size // 8])", 'C04.1')
M('C04', 'ivcheck-deleted', PK, "        if not constant_time.bytes_eq(iv[-2:], ivl2):\n            raise PGPDecryptionError(\"Decryption failed\")  # pragma: no cover\n\n        return pt", "        return pt", 'C04.2')
M('C04', 'ivcheck-first-two', PK, "        if not constant_time.bytes_eq(iv[-2:], ivl2):\n            raise PGPDecryptionError(\"Decryption failed\")  # pragma: no cover\n\n        return pt", "        if not constant_time.bytes_eq(iv[:2], ivl2):\n            raise PGPDecryptionError(\"Decryption failed\")  # pragma: no cover\n\n        return pt", 'C04.2')
M('C04', 'pkesk-checksum-deleted', PK, "        if not sum(symkey) % 65536 == checksum:  # pragma: no cover\n            raise PGPDecryptionError(\"{:s} decryption failed\".format(self.pkalg.name))\n", "", 'C04.3')
M('C04', 'pkesk-checksum-mod-256', PK, "        if not sum(symkey) % 65536 == checksum:  # pragma: no cover", "        if not sum(symkey) % 256 == checksum % 256:  # pragma: no cover", 'C04.3')
M('C04', 'pkesk-checksum-inverted', PK, "        if not sum(symkey) % 65536 == checksum:  # pragma: no cover", "        if sum(symkey) % 65536 == checksum:  # pragma: no cover", 'C04.3')
M('C04', 'keyblob-sha1-deleted', FL, "        if self.s2k.usage == 254 and not pt[-20:] == hashlib.new('sha1', pt[:-20]).digest():", "        if False and not pt[-20:] == hashlib.new('sha1', pt[:-20]).digest():", 'C04.4')
M('C04', 'keyblob-sha1-usage-255', FL, "        if self.s2k.usage == 254 and not pt[-20:] == hashlib.new('sha1', pt[:-20]).digest():", "        if self.s2k.usage == 253 and not pt[-20:] == hashlib.new('sha1', pt[:-20]).digest():", 'C04.4')
M('C04', 'keyblob-sum-inverted', FL, "        if self.s2k.usage == 255 and not self.bytes_to_int(pt[-2:]) == (sum(bytearray(pt[:-2])) % 65536):", "        if self.s2k.usage == 255 and self.bytes_to_int(pt[-2:]) == (sum(bytearray(pt[:-2])) % 65536):", 'C04.4')
M('C04', 'msg-decrypt-except-break', PGP, "            except (TypeError, ValueError, NotImplementedError, PGPDecryptionError):\n                continue", "            except (TypeError, ValueError, NotImplementedError, PGPDecryptionError):\n                break", 'C04.5')
M('C04', 'msg-decrypt-no-else-raise', PGP, "        else:\n            raise PGPDecryptionError(\"Decryption failed\")\n\n        return decmsg", "        else:\n            decmsg = self\n\n        return decmsg", 'C04.5')
M('C04', 'msg-decrypt-key-swap', PGP, "                decmsg.parse(self.message.decrypt(key, symalg))", "                decmsg.parse(self.message.decrypt(symalg, key))", 'C04.5')
M('C04', 'key-decrypt-no-raise', PGP, "            raise PGPError(\"Cannot decrypt the provided message with this key\")\n", "            warnings.warn(\"Cannot decrypt the provided message with this key\")\n", 'C04.6')
M('C04', 'key-decrypt-any-pkesk', PGP, "                     and pk.pkalg == self.key_algorithm and pk.encrypter == self.fingerprint.keyid)", "                     and pk.pkalg == self.key_algorithm)", 'C04.6')
M('C04', 'ecdh-no-finalize', FL, "        return padder.update(_m) + padder.finalize()\n\n    def __init__(self):\n        super(ECDHCipherText, self).__init__()", "        return padder.update(_m)\n\n    def __init__(self):\n        super(ECDHCipherText, self).__init__()", 'C04.7')
M('C04', 'ecdh-no-unpad', FL, "        padder = PKCS7(64).unpadder()\n        return padder.update(_m) + padder.finalize()", "        return _m.rstrip(_m[-1:])", 'C04.7')
T('C04', 'twin-neq', FL, "        if self.s2k.usage == 254 and not pt[-20:] == hashlib.new('sha1', pt[:-20]).digest():", "        if self.s2k.usage == 254 and pt[-20:] != hashlib.new('sha1', pt[:-20]).digest():")
T('C04', 'twin-eq-form', PK, "        if not constant_time.bytes_eq(bytes(pt[-22:]), _expected_mdcbytes):", "        if bytes(pt[-22:]) != _expected_mdcbytes:")
T('C04', 'twin-if-else', PK, "        if not sum(symkey) % 65536 == checksum:  # pragma: no cover\n            raise PGPDecryptionError(\"{:s} decryption failed\".format(self.pkalg.name))\n",
  "        if sum(symkey) % 65536 == checksum:\n            pass\n        else:\n            raise PGPDecryptionError(\"{:s} decryption failed\".format(self.pkalg.name))\n")
T('C04', 'twin-mdc-temp', PK, "        _expected_mdcbytes = b'\\xd3\\x14' + hashlib.new('SHA1', pt[:-20]).digest()", "        digest = hashlib.new('SHA1', pt[:-20]).digest()\n        _expected_mdcbytes = b'\\xd3' + b'\\x14' + digest")

# =============================================================================================== C03
M('C03', 'checksum-65535', PK, "        m += self.int_to_bytes(sum(bytearray(symkey)) % 65536, 2)", "        m += self.int_to_bytes(sum(bytearray(symkey)) % 65535, 2)", 'C03.1')
M('C03', 'checksum-1-octet', PK, "        m += self.int_to_bytes(sum(bytearray(symkey)) % 65536, 2)", "        m += self.int_to_bytes(sum(bytearray(symkey)) % 65536)", 'C03.1')
M('C03', 'checksum-includes-alg', PK, "        m += self.int_to_bytes(sum(bytearray(symkey)) % 65536, 2)", "        m += self.int_to_bytes(sum(m) % 65536, 2)", 'C03.1')
M('C03', 'mdc-omits-prefix', PK, "        iv = alg.gen_iv()\n        data = iv + iv[-2:] + data\n\n        mdc = MDC()\n        mdc.mdc = binascii.hexlify(hashlib.new('SHA1', data + b'\\xd3\\x14').digest())",
  "        iv = alg.gen_iv()\n\n        mdc = MDC()\n        mdc.mdc = binascii.hexlify(hashlib.new('SHA1', data + b'\\xd3\\x14').digest())\n        data = iv + iv[-2:] + data", 'C03.2')
M('C03', 'prefix-first-two', PK, "        data = iv + iv[-2:] + data", "        data = iv + iv[:2] + data", 'C03.2')
M('C03', 'mdc-d313', PK, "hashlib.new('SHA1', data + b'\\xd3\\x14').digest())", "hashlib.new('SHA1', data + b'\\xd3\\x13').digest())", 'C03.2')
M('C03', 'mdc-tag', PK, "    __typeid__ = 0x13\n\n    def __init__(self):\n        super(MDC, self).__init__()", "    __typeid__ = 0x14\n\n    def __init__(self):\n        super(MDC, self).__init__()", 'C03.2')
M('C03', 'kdf-no-0301', FL, "        data += b'\\x03\\x01'\n        data.append(self.halg)", "        data.append(self.halg)", 'C03.5')
M('C03', 'kdf-hash-kek-swapped', FL, "        data.append(self.halg)\n        data.append(self.encalg)\n        data += b'Anonymous Sender    '", "        data.append(self.encalg)\n        data.append(self.halg)\n        data += b'Anonymous Sender    '", 'C03.5')
M('C03', 'kdf-three-spaces', FL, "        data += b'Anonymous Sender    '", "        data += b'Anonymous Sender   '", 'C03.5')
M('C03', 'decrypt-iv-keysize', SE, "        iv = b'\\x00' * (alg.block_size // 8)\n\n    try:\n        decryptor", "        iv = b'\\x00' * (alg.key_size // 8)\n\n    try:\n        decryptor", 'C03.4')
M('C03', 'zip-trim-3', CO, "            return zlib.compress(data)[2:-4]", "            return zlib.compress(data)[2:-3]", 'C03.6')
M('C03', 'zip-decompress-wbits', CO, "            return zlib.decompress(data, -15)", "            return zlib.decompress(data, 15)", 'C03.6')
M('C03', 'ecdh-decrypt-primary-fpr', FL, "        # derive the wrapping key\n        z = km.kdf.derive_key(s, km.oid, PubKeyAlgorithm.ECDH, pk.fingerprint)\n\n        # unwrap and unpad m", "        # derive the wrapping key\n        z = km.kdf.derive_key(s, km.oid, PubKeyAlgorithm.ECDH, getattr(pk, 'parent_fingerprint', pk.fingerprint))\n\n        # unwrap and unpad m", 'C03.5')
M('C03', 'skesk-alg-omitted', PK, "        self.ct = _encrypt(self.int_to_bytes(self.symalg) + sk, esk, self.symalg)", "        self.ct = _encrypt(sk, esk, self.symalg)", 'C03.3')
M('C03', 'skesk-reader-keeps-alg', PK, "        symalg = SymmetricKeyAlgorithm(m[0])\n        del m[0]\n\n        return symalg, bytes(m)", "        symalg = SymmetricKeyAlgorithm(m[0])\n\n        return symalg, bytes(m)", 'C03.3')
M('C03', 'pad-128', FL, "        padder = PKCS7(64).padder()", "        padder = PKCS7(128).padder()", 'C03.5')
M('C03', 'ecdh-len-2-octets', FL, "        _bytes += self.p.to_mpibytes()\n        _bytes.append(len(self.c))\n        _bytes += self.c", "        _bytes += self.p.to_mpibytes()\n        _bytes += self.int_to_bytes(len(self.c), 2)\n        _bytes += self.c", 'C03.5')
M('C03', 'pkesk-cipher-mismatch', PGP, "        pkesk.encrypt_sk(self._key, cipher_algo, sessionkey)", "        pkesk.encrypt_sk(self._key, pref_cipher, sessionkey)", 'C03.7')
M('C03', 'encrypters-unfiltered', PGP, "        return set(m.encrypter for m in self._sessionkeys if isinstance(m, PKESessionKey))", "        return set(m.encrypter for m in self._sessionkeys)", 'C03.8')
T('C03', 'twin-kdf-join', FL, "        data += b'\\x03\\x01'\n        data.append(self.halg)", "        data += b'\\x03'\n        data += b'\\x01'\n        data.append(self.halg)")
T('C03', 'twin-m-temp', PK, "        m = bytearray(self.int_to_bytes(symalg) + symkey)\n        m += self.int_to_bytes(sum(bytearray(symkey)) % 65536, 2)", "        chk = sum(bytearray(symkey)) % 65536\n        m = bytearray(self.int_to_bytes(symalg) + symkey + self.int_to_bytes(chk, 2))")
T('C03', 'twin-iv-name', PK, "        iv = alg.gen_iv()\n        data = iv + iv[-2:] + data", "        prefix = alg.gen_iv()\n        data = prefix + prefix[-2:] + data")

# ---- C03 hardening: behaviour-preserving refactorings of the anchored functions (must stay silent) and one new mutant per rewritten rule
PKESK_ENC = ("    def encrypt_sk(self, pk, symalg, symkey):\n        m = bytearray(self.int_to_bytes(symalg) + symkey)\n        m += self.int_to_bytes(sum(bytearray(symkey)) % 65536, 2)\n\n"
             "        if self.pkalg == PubKeyAlgorithm.RSAEncryptOrSign:\n            encrypter = pk.keymaterial.__pubkey__().encrypt\n            encargs = (bytes(m), padding.PKCS1v15(),)\n\n"
             "        elif self.pkalg == PubKeyAlgorithm.ECDH:\n            encrypter = pk\n            encargs = (bytes(m),)\n\n        else:\n            raise NotImplementedError(self.pkalg)\n\n"
             "        self.ct = self.ct.encrypt(encrypter, *encargs)\n        self.update_hlen()\n")
T('C03', 'twin-pkesk-params-renamed', PK, PKESK_ENC,
  "    def encrypt_sk(self, recipient, cipher, sessionkey):\n        body = [self.int_to_bytes(cipher), sessionkey, self.int_to_bytes(sum(bytearray(sessionkey)) & 0xFFFF, 2)]\n        mval = bytes(b''.join(body))\n\n"
  "        if self.pkalg == PubKeyAlgorithm.RSAEncryptOrSign:\n            self.ct = self.ct.encrypt(recipient.keymaterial.__pubkey__().encrypt, mval, padding.PKCS1v15())\n\n"
  "        elif self.pkalg == PubKeyAlgorithm.ECDH:\n            self.ct = self.ct.encrypt(recipient, mval)\n\n        else:\n            raise NotImplementedError(self.pkalg)\n\n        self.update_hlen()\n")
T('C03', 'twin-pkesk-checksum-shift', PK, "        m += self.int_to_bytes(sum(bytearray(symkey)) % 65536, 2)", "        m += self.int_to_bytes(sum(bytearray(symkey)) % (1 << 16), 2)")
M('C03', 'checksum-mask-fff', PK, "        m += self.int_to_bytes(sum(bytearray(symkey)) % 65536, 2)", "        m += self.int_to_bytes(sum(bytearray(symkey)) & 0xFFF, 2)", 'C03.1')
M('C03', 'm-value-key-first', PK, "        m = bytearray(self.int_to_bytes(symalg) + symkey)\n        m += self.int_to_bytes(sum(bytearray(symkey)) % 65536, 2)",
  "        m = bytearray(symkey + self.int_to_bytes(symalg))\n        m += self.int_to_bytes(sum(bytearray(symkey)) % 65536, 2)", 'C03.1')
M('C03', 'ecdh-arm-wraps-for-keymaterial', PK, "            encrypter = pk\n            encargs = (bytes(m),)", "            encrypter = pk.keymaterial\n            encargs = (bytes(m),)", 'C03.1')
T('C03', 'twin-rsa-pad-rjust', PK, "            ct = b'\\x00' * ((pk.keymaterial.__privkey__().key_size // 8) - len(ct)) + ct\n", "            ct = ct.rjust(pk.keymaterial.__privkey__().key_size >> 3, b'\\x00')\n")
M('C03', 'rsa-pad-one-short', PK, "            ct = b'\\x00' * ((pk.keymaterial.__privkey__().key_size // 8) - len(ct)) + ct\n", "            ct = b'\\x00' * ((pk.keymaterial.__privkey__().key_size // 8) - len(ct) - 1) + ct\n", 'C03.1')
SEIPD_ENC = ("    def encrypt(self, key, alg, data):\n        iv = alg.gen_iv()\n        data = iv + iv[-2:] + data\n\n        mdc = MDC()\n        mdc.mdc = binascii.hexlify(hashlib.new('SHA1', data + b'\\xd3\\x14').digest())\n"
             "        mdc.update_hlen()\n\n        data += mdc.__bytes__()\n        self.ct = _encrypt(data, key, alg)\n        self.update_hlen()\n")
T('C03', 'twin-seipd-renamed-sha1', PK, SEIPD_ENC,
  "    def encrypt(self, sessionkey, cipher, plaintext):\n        prefix = cipher.gen_iv()\n        body = b''.join([prefix, prefix[-2:], plaintext])\n\n        digest = hashlib.sha1(body)\n        digest.update(b'\\xd3')\n        digest.update(b'\\x14')\n"
  "        trailer = MDC()\n        trailer.mdc = binascii.hexlify(digest.digest())\n        trailer.update_hlen()\n\n        self.ct = _encrypt(body + trailer.__bytes__(), sessionkey, cipher)\n        self.update_hlen()\n")
M('C03', 'seipd-mdc-stale-header', PK, "        mdc.update_hlen()\n\n        data += mdc.__bytes__()", "        data += mdc.__bytes__()\n        mdc.update_hlen()", 'C03.2')
M('C03', 'seipd-two-iv-draws', PK, "        data = iv + iv[-2:] + data\n\n        mdc = MDC()", "        data = iv + alg.gen_iv()[-2:] + data\n\n        mdc = MDC()", 'C03.2')
M('C03', 'old-format-default', TY, "        self._lenfmt = 1\n", "        self._lenfmt = 0\n", 'C03.2')
T('C03', 'twin-skesk-encalg-direct', PK, "        esk = self.s2k.derive_key(passphrase)\n        del passphrase\n\n        self.ct = _encrypt(self.int_to_bytes(self.symalg) + sk, esk, self.symalg)",
  "        kek = self.s2k.derive_key(passphrase)\n        del passphrase\n\n        cipher = self.s2k.encalg\n        self.ct = _encrypt(b''.join([self.int_to_bytes(cipher), sk]), kek, cipher, iv=None)")
T('C03', 'twin-skesk-reader-slices', PK, "        symalg = SymmetricKeyAlgorithm(m[0])\n        del m[0]\n\n        return symalg, bytes(m)", "        return SymmetricKeyAlgorithm(m[0]), bytes(m[1:])")
M('C03', 'skesk-kek-for-other-cipher', PK, "        self.ct = _encrypt(self.int_to_bytes(self.symalg) + sk, esk, self.symalg)", "        self.ct = _encrypt(self.int_to_bytes(self.symalg) + sk, esk, SymmetricKeyAlgorithm.AES128)", 'C03.3')
SKESK_PARSE = ("        packet.insert(0, 255)\n        self.s2k.parse(packet, iv=False)\n\n        ctend = self.header.length - len(self.s2k)\n        self.ct = packet[:ctend]\n        del packet[:ctend]\n")
T('C03', 'twin-skesk-parse-spelling', PK, SKESK_PARSE,
  "        packet.insert(0, 0xFF)\n        self.s2k.parse(packet, False)\n\n        remaining = -len(self.s2k) + self.header.length\n        self.ct, tail = packet[:remaining], None\n        del packet[0:remaining]\n")
M('C03', 'skesk-parse-usage-254', PK, "        packet.insert(0, 255)\n        self.s2k.parse(packet, iv=False)", "        packet.insert(0, 254)\n        self.s2k.parse(packet, iv=False)", 'C03.3')
M('C03', 'skesk-parse-reads-iv', PK, "        packet.insert(0, 255)\n        self.s2k.parse(packet, iv=False)", "        packet.insert(0, 255)\n        self.s2k.parse(packet)", 'C03.3')
M('C03', 'skesk-parse-ct-one-long', PK, "        ctend = self.header.length - len(self.s2k)\n        self.ct = packet[:ctend]", "        ctend = self.header.length - len(self.s2k) + 1\n        self.ct = packet[:ctend]", 'C03.3')
T('C03', 'twin-symenc-keywords', SE, "        encryptor = Cipher(alg.cipher(key), modes.CFB(iv), default_backend()).encryptor()\n", "        cipher = Cipher(algorithm=alg.cipher(key), mode=modes.CFB(iv), backend=default_backend())\n        encryptor = cipher.encryptor()\n",
  more=[(SE, "        return bytearray(encryptor.update(pt) + encryptor.finalize())", "        head = encryptor.update(pt)\n        return bytearray(b''.join([head, encryptor.finalize()]))"),
        (SE, "def _encrypt(pt, key, alg, iv=None):\n    if iv is None:\n        iv = b'\\x00' * (alg.block_size // 8)\n", "def _encrypt(pt, key, alg, iv=None):\n    iv = b'\\x00' * (alg.block_size >> 3) if iv is None else iv\n")])
T('C03', 'twin-symenc-params-renamed', SE, "def _decrypt(ct, key, alg, iv=None):", "def _decrypt(ciphertext, sessionkey, cipher, nonce=None):",
  more=[(SE, "        iv = b'\\x00' * (alg.block_size // 8)\n\n    try:\n        decryptor = Cipher(alg.cipher(key), modes.CFB(iv), default_backend()).decryptor()", "        nonce = b'\\x00' * (cipher.block_size // 8)\n\n    try:\n        decryptor = Cipher(cipher.cipher(sessionkey), modes.CFB(nonce), default_backend()).decryptor()"),
        (SE, "def _decrypt(ciphertext, sessionkey, cipher, nonce=None):\n    if iv is None:", "def _decrypt(ciphertext, sessionkey, cipher, nonce=None):\n    if nonce is None:"),
        (SE, "        return bytearray(decryptor.update(ct) + decryptor.finalize())", "        return bytearray(decryptor.update(ciphertext) + decryptor.finalize())")])
M('C03', 'decrypt-ofb-mode', SE, "        decryptor = Cipher(alg.cipher(key), modes.CFB(iv), default_backend()).decryptor()", "        decryptor = Cipher(alg.cipher(key), modes.OFB(iv), default_backend()).decryptor()", 'C03.4')
M('C03', 'encrypt-no-finalize', SE, "        return bytearray(encryptor.update(pt) + encryptor.finalize())", "        return bytearray(encryptor.update(pt))", 'C03.4')
M('C03', 'encrypt-iv-blocksize-bits', SE, "        iv = b'\\x00' * (alg.block_size // 8)\n\n    if alg.is_insecure:", "        iv = b'\\x00' * (alg.block_size // 4)\n\n    if alg.is_insecure:", 'C03.4')
KDF_BODY = ("        data = bytearray()\n        data += encoder.encode(curve.value)[1:]\n        data.append(pkalg)\n        data += b'\\x03\\x01'\n        data.append(self.halg)\n        data.append(self.encalg)\n"
            "        data += b'Anonymous Sender    '\n        data += binascii.unhexlify(fingerprint.replace(' ', ''))\n\n"
            "        ckdf = ConcatKDFHash(algorithm=getattr(hashes, self.halg.name)(), length=self.encalg.key_size // 8, otherinfo=bytes(data), backend=default_backend())\n        return ckdf.derive(s)\n")
T('C03', 'twin-kdf-join-positional', FL, "    def derive_key(self, s, curve, pkalg, fingerprint):", "    def derive_key(self, secret, oid, algid, fpr):",
  more=[(FL, KDF_BODY, "        oid_der = encoder.encode(oid.value)[1:]\n        param = b''.join([oid_der, bytearray([algid, 0x03, 0x01, self.halg, self.encalg]), b'Anonymous Sender' + b' ' * 4,\n                          binascii.unhexlify(fpr.replace(' ', ''))])\n"
         "        zlen = self.encalg.key_size >> 3\n        return ConcatKDFHash(getattr(hashes, self.halg.name)(), zlen, param, default_backend()).derive(secret)\n")])
M('C03', 'kdf-length-blocksize', FL, "length=self.encalg.key_size // 8, otherinfo=bytes(data)", "length=self.encalg.block_size // 8, otherinfo=bytes(data)", 'C03.5')
M('C03', 'kdf-hash-fixed-sha256', FL, "ConcatKDFHash(algorithm=getattr(hashes, self.halg.name)(), length=", "ConcatKDFHash(algorithm=hashes.SHA256(), length=", 'C03.5')
M('C03', 'kdf-param-oid-with-tag', FL, "        data += encoder.encode(curve.value)[1:]\n", "        data += encoder.encode(curve.value)\n", 'C03.5')
T('C03', 'twin-ecdh-derive-keywords', FL, "        # derive the wrapping key\n        z = km.kdf.derive_key(s, km.oid, PubKeyAlgorithm.ECDH, pk.fingerprint)\n\n        # compute C\n        ct.c = aes_key_wrap(z, m, default_backend())",
  "        # derive the wrapping key\n        kek = km.kdf.derive_key(s, curve=km.oid, pkalg=PubKeyAlgorithm.ECDH, fingerprint=pk.fingerprint)\n\n        # compute C\n        ct.c = aes_key_wrap(wrapping_key=kek, key_to_wrap=m, backend=default_backend())",
  more=[(FL, "        padder = PKCS7(64).padder()\n        m = padder.update(_m) + padder.finalize()", "        pkcs5 = PKCS7(block_size=64).padder()\n        m = b''.join([pkcs5.update(_m), pkcs5.finalize()])")])
M('C03', 'ecdh-decrypt-unwraps-with-oid-of-subkey', FL, "        # derive the wrapping key\n        z = km.kdf.derive_key(s, km.oid, PubKeyAlgorithm.ECDH, pk.fingerprint)\n\n        # unwrap and unpad m",
  "        # derive the wrapping key\n        z = km.kdf.derive_key(s, km.oid, pk.pkalg, pk.fingerprint)\n\n        # unwrap and unpad m", 'C03.5')
M('C03', 'ecdh-decrypt-pads-instead-of-unpads', FL, "        padder = PKCS7(64).unpadder()\n        return padder.update(_m) + padder.finalize()", "        padder = PKCS7(64).padder()\n        return padder.update(_m) + padder.finalize()", 'C03.5')
M('C03', 'ecdh-unwrap-skips-first-octet', FL, "        _m = aes_key_unwrap(z, self.c, default_backend())", "        _m = aes_key_unwrap(z, self.c[1:], default_backend())", 'C03.5')
T('C03', 'twin-compress-eq-elif', CO, "        if self is CompressionAlgorithm.ZIP:\n            return zlib.compress(data)[2:-4]\n\n        if self is CompressionAlgorithm.ZLIB:\n            return zlib.compress(data)\n",
  "        if self is CompressionAlgorithm.ZIP:\n            deflated = zlib.compress(data)\n            return deflated[2:][:-4]\n\n        elif self is CompressionAlgorithm.ZLIB:\n            return zlib.compress(data)\n")
M('C03', 'zlib-arm-returns-raw-deflate', CO, "        if self is CompressionAlgorithm.ZLIB:\n            return zlib.compress(data)\n", "        if self is CompressionAlgorithm.ZLIB:\n            return zlib.compress(data)[2:-4]\n", 'C03.6')
MSG_ENC = ("        if sessionkey is None:\n            sessionkey = cipher_algo.gen_key()\n        skesk.encrypt_sk(passphrase, sessionkey)\n        del passphrase\n\n        msg = PGPMessage() | skesk\n\n"
           "        if not self.is_encrypted:\n            skedata = IntegrityProtectedSKEDataV1()\n            skedata.encrypt(sessionkey, cipher_algo, self.__bytes__())\n            msg |= skedata\n")
T('C03', 'twin-msg-encrypt-renamed-keywords', PGP, MSG_ENC,
  "        sk = cipher_algo.gen_key() if sessionkey is None else sessionkey\n        skesk.encrypt_sk(passphrase, sk=sk)\n        del passphrase\n\n        msg = PGPMessage() | skesk\n\n"
  "        if not self.is_encrypted:\n            container = IntegrityProtectedSKEDataV1()\n            container.encrypt(key=sk, alg=cipher_algo, data=bytes(self))\n            msg |= container\n")
M('C03', 'msg-encrypt-skesk-other-cipher', PGP, "        skesk.s2k.encalg = cipher_algo\n", "        skesk.s2k.encalg = SymmetricKeyAlgorithm.AES256\n", 'C03.7')
M('C03', 'key-encrypt-container-holds-inner-message', PGP, "            skedata.encrypt(sessionkey, cipher_algo, message.__bytes__())", "            skedata.encrypt(sessionkey, cipher_algo, message.message.__bytes__())", 'C03.7')
SEL = ("        pkesk = next(pk for pk in message._sessionkeys if isinstance(pk, PKESessionKey)\n                     and pk.pkalg == self.key_algorithm and pk.encrypter == self.fingerprint.keyid)\n")
T('C03', 'twin-selection-reordered', PGP, SEL,
  "        mine = self.fingerprint.keyid\n        candidates = [esk for esk in message._sessionkeys if isinstance(esk, PKESessionKey)\n                      if not (mine != esk.encrypter or esk.pkalg != self.key_algorithm)]\n        pkesk = next(iter(candidates))\n")
T('C03', 'twin-decrypt-loop-guard-clauses', PGP, "        for skesk in iter(sk for sk in self._sessionkeys if isinstance(sk, SKESessionKey)):\n            try:\n                symalg, key = skesk.decrypt_sk(passphrase)",
  "        for skesk in self._sessionkeys:\n            if isinstance(skesk, PKESessionKey):\n                continue\n            try:\n                symalg, key = skesk.decrypt_sk(passphrase)")
T('C03', 'twin-encrypters-loop', PGP, "        return set(m.encrypter for m in self._sessionkeys if isinstance(m, PKESessionKey))",
  "        ids = set()\n        for esk in self._sessionkeys:\n            if not isinstance(esk, PKESessionKey):\n                continue\n            ids.add(esk.encrypter)\n        return ids")
M('C03', 'encrypters-loop-wrong-class-guard', PGP, "        return set(m.encrypter for m in self._sessionkeys if isinstance(m, PKESessionKey))",
  "        ids = set()\n        for esk in self._sessionkeys:\n            if isinstance(esk, PKESessionKey):\n                continue\n            ids.add(esk.encrypter)\n        return ids", 'C03.8')
M('C03', 'encrypters-filter-after-read', PGP, "        return set(m.encrypter for m in self._sessionkeys if isinstance(m, PKESessionKey))",
  "        return set(m.encrypter for m in self._sessionkeys if m.encrypter and isinstance(m, PKESessionKey))", 'C03.8')
M('C03', 'selection-or-keyid', PGP, SEL, "        pkesk = next(pk for pk in message._sessionkeys if isinstance(pk, PKESessionKey)\n                     and (pk.pkalg == self.key_algorithm or pk.encrypter == self.fingerprint.keyid))\n", 'C03.8')
M('C03', 'selection-keyid-negated', PGP, SEL, "        pkesk = next(pk for pk in message._sessionkeys if isinstance(pk, PKESessionKey)\n                     and pk.pkalg == self.key_algorithm and pk.encrypter != self.fingerprint.keyid)\n", 'C03.8')

SEL2 = SEL + "        alg, key = pkesk.decrypt_sk(self._key)\n"
T('C03', 'twin-selection-loop-break', PGP, SEL,
  "        pkesk = None\n        for pk in message._sessionkeys:\n            if isinstance(pk, PKESessionKey) and pk.pkalg == self.key_algorithm and pk.encrypter == self.fingerprint.keyid:\n                pkesk = pk\n                break\n")
T('C03', 'twin-selection-loop-guard-clauses', PGP, SEL2,
  "        wanted = self.fingerprint.keyid\n        for candidate in message._sessionkeys:\n            if not isinstance(candidate, PKESessionKey):\n                continue\n            if candidate.pkalg != self.key_algorithm or wanted != candidate.encrypter:\n                continue\n"
  "            alg, key = candidate.decrypt_sk(self._key)\n            break\n        else:\n            raise StopIteration()\n")
T('C03', 'twin-selection-chained-lists', PGP, SEL,
  "        pkesks = [pk for pk in message._sessionkeys if isinstance(pk, PKESessionKey)]\n        mine = [pk for pk in pkesks if pk.encrypter == self.fingerprint.keyid]\n        pkesk = [pk for pk in mine if pk.pkalg == self.key_algorithm][0]\n")
T('C03', 'twin-encrypters-checked-once', PGP, "        if self.fingerprint.keyid not in message.encrypters:\n            sks = set(self.subkeys)\n            mis = set(message.encrypters)\n",
  "        mis = set(message.encrypters)\n        if self.fingerprint.keyid not in mis:\n            sks = set(self.subkeys)\n")
M('C03', 'selection-loop-any-pkesk-of-algorithm', PGP, SEL,
  "        pkesk = None\n        for pk in message._sessionkeys:\n            if isinstance(pk, PKESessionKey) and pk.pkalg == self.key_algorithm:\n                pkesk = pk\n                break\n", 'C03.8')
M('C03', 'selection-loop-guard-skips-own-keyid', PGP, SEL2,
  "        wanted = self.fingerprint.keyid\n        for candidate in message._sessionkeys:\n            if not isinstance(candidate, PKESessionKey):\n                continue\n            if candidate.pkalg != self.key_algorithm or wanted == candidate.encrypter:\n                continue\n"
  "            alg, key = candidate.decrypt_sk(self._key)\n            break\n        else:\n            raise StopIteration()\n", 'C03.8')
M('C03', 'selection-first-pkesk', PGP, SEL, "        pkesk = [pk for pk in message._sessionkeys if isinstance(pk, PKESessionKey)][0]\n", 'C03.8')
M('C03', 'selection-loop-no-class-filter', PGP, SEL,
  "        pkesk = None\n        for pk in message._sessionkeys:\n            if pk.pkalg == self.key_algorithm and pk.encrypter == self.fingerprint.keyid:\n                pkesk = pk\n                break\n", 'C03.8')

T('C03', 'twin-seipd-bytes-of-mdc', PK, SEIPD_ENC,
  "    def encrypt(self, key, alg, data):\n        iv = alg.gen_iv()\n        quick = iv[-2:]\n        sha = hashlib.new('SHA1')\n        for part in (iv, quick, data, b'\\xd3\\x14'):\n            sha.update(part)\n\n"
  "        mdc = MDC()\n        mdc.mdc = binascii.hexlify(sha.digest())\n        mdc.update_hlen()\n\n        self.ct = _encrypt(iv + quick + data + bytes(mdc), key, alg)\n        self.update_hlen()\n")
T('C03', 'twin-msg-encrypt-skesk-helper', PGP, "        skesk = SKESessionKeyV4()\n        skesk.s2k.usage = 255\n        skesk.s2k.specifier = 3\n        skesk.s2k.halg = hash_algo\n        skesk.s2k.encalg = cipher_algo\n        skesk.s2k.count = skesk.s2k.halg.tuned_count\n",
  "        skesk = self._fresh_skesk(hash_algo, cipher_algo)\n",
  more=[(PGP, "    def encrypt(self, passphrase, sessionkey=None, **prefs):\n        \"\"\"\n        encrypt(passphrase, [sessionkey=None,] **prefs)",
         "    @staticmethod\n    def _fresh_skesk(digest, cipher):\n        esk = SKESessionKeyV4()\n        esk.s2k.usage = 255\n        esk.s2k.specifier = 3\n        esk.s2k.halg = digest\n        esk.s2k.encalg = cipher\n        esk.s2k.count = esk.s2k.halg.tuned_count\n        return esk\n\n"
         "    def encrypt(self, passphrase, sessionkey=None, **prefs):\n        \"\"\"\n        encrypt(passphrase, [sessionkey=None,] **prefs)")])
T('C03', 'twin-pkesk-decrypt-privkey-local', PK, "            ct = self.ct.me_mod_n.to_mpibytes()[2:]\n            ct = b'\\x00' * ((pk.keymaterial.__privkey__().key_size // 8) - len(ct)) + ct\n\n            decrypter = pk.keymaterial.__privkey__().decrypt\n            decargs = (ct, padding.PKCS1v15(),)\n",
  "            priv = pk.keymaterial.__privkey__()\n            modlen = priv.key_size // 8\n            raw = self.ct.me_mod_n.to_mpibytes()[2:]\n            padded = b'\\x00' * (modlen - len(raw)) + raw\n\n            decrypter = priv.decrypt\n            decargs = (padded, padding.PKCS1v15())\n")
T('C03', 'twin-ecdh-encrypt-direct-class', FL, "        padder = PKCS7(64).padder()\n        m = padder.update(_m) + padder.finalize()\n\n        km = pk.keymaterial\n        ct = cls()\n",
  "        padder = PKCS7(64).padder()\n        m = padder.update(_m)\n        m += padder.finalize()\n\n        km = pk.keymaterial\n        ct = ECDHCipherText()\n")

# ---- twins produced by an independent refactoring agent that were noisy before the value-based rules / engine normal forms
T('C13', 'ag-pkesk-extend-tuple-const', PK, "__all__ = ['PKESessionKey',",
  "# RFC 4880 5.1: the session key checksum is taken modulo 65536\n_SK_CHECKSUM_MOD = 1 << 16\n\n__all__ = ['PKESessionKey',",
  more=[(PK, '        m = bytearray(self.int_to_bytes(symalg) + symkey)\n        m += self.int_to_bytes(sum(bytearray(symkey)) % 65536, 2)\n\n        if self.pkalg == PubKeyAlgorithm.RSAEncryptOrSign:\n            encrypter = pk.keymaterial.__pubkey__().encrypt\n            encargs = (bytes(m), padding.PKCS1v15(),)\n\n        elif self.pkalg == PubKeyAlgorithm.ECDH:\n            encrypter = pk\n            encargs = (bytes(m),)\n\n        else:\n            raise NotImplementedError(self.pkalg)\n\n        self.ct = self.ct.encrypt(encrypter, *encargs)', '        block = bytearray(self.int_to_bytes(symalg) + symkey)\n        cksum = sum(bytearray(symkey)) % _SK_CHECKSUM_MOD\n        block.extend(self.int_to_bytes(cksum, 2))\n\n        if self.pkalg == PubKeyAlgorithm.RSAEncryptOrSign:\n            fn, fnargs = pk.keymaterial.__pubkey__().encrypt, (bytes(block), padding.PKCS1v15())\n\n        elif self.pkalg == PubKeyAlgorithm.ECDH:\n            fn, fnargs = pk, (bytes(block),)\n\n        else:\n            raise NotImplementedError(self.pkalg)\n\n        self.ct = self.ct.encrypt(fn, *fnargs)')])
T('C03', 'ag-skesk-parse-slice-assign', PK, '        _bytes = bytearray()\n        _bytes += super(SKESessionKeyV4, self).__bytearray__()\n        _bytes += self.s2k.__bytearray__()[1:]\n        _bytes += self.ct\n        return _bytes',
  '        hdr = super(SKESessionKeyV4, self).__bytearray__()\n        # the S2K usage octet is not part of this packet\n        s2k_spec = self.s2k.__bytearray__()[1:]\n        return bytearray(hdr) + s2k_spec + self.ct',
  more=[(PK, '        packet.insert(0, 255)\n        self.s2k.parse(packet, iv=False)\n\n        ctend = self.header.length - len(self.s2k)\n        self.ct = packet[:ctend]\n        del packet[:ctend]', "        packet.insert(0, 0xFF)\n        self.s2k.parse(packet, False)\n\n        esk_len = self.header.length - len(self.s2k)\n        self.ct, packet[:esk_len] = packet[:esk_len], b''")])
T('C03', 'ag-symenc-condexpr-bytesn-kwargs', SE, "    if iv is None:\n        iv = b'\\x00' * (alg.block_size // 8)",
  '    iv = bytes(alg.block_size // 8) if iv is None else iv',
  more=[(SE, '        encryptor = Cipher(alg.cipher(key), modes.CFB(iv), default_backend()).encryptor()', '        cfb = Cipher(algorithm=alg.cipher(key), mode=modes.CFB(iv), backend=default_backend())\n        encryptor = cfb.encryptor()'),
        (SE, "        iv = b'\\x00' * (alg.block_size // 8)\n\n    try:\n        decryptor = Cipher(alg.cipher(key), modes.CFB(iv), default_backend()).decryptor()", '        iv = bytes(alg.block_size // 8)\n\n    try:\n        cfb = Cipher(algorithm=alg.cipher(key), mode=modes.CFB(iv), backend=default_backend())\n        decryptor = cfb.decryptor()')])
T('C03', 'ag-eckdf-join-hashcls-temp', FL, "        data = bytearray()\n        data += encoder.encode(curve.value)[1:]\n        data.append(pkalg)\n        data += b'\\x03\\x01'\n        data.append(self.halg)\n        data.append(self.encalg)\n        data += b'Anonymous Sender    '\n        data += binascii.unhexlify(fingerprint.replace(' ', ''))\n\n        ckdf = ConcatKDFHash(algorithm=getattr(hashes, self.halg.name)(), length=self.encalg.key_size // 8, otherinfo=bytes(data), backend=default_backend())",
  "        param = b''.join([\n            encoder.encode(curve.value)[1:],\n            bytes([pkalg, 0x03, 0x01, self.halg, self.encalg]),\n            b'Anonymous Sender    ',\n            binascii.unhexlify(fingerprint.replace(' ', '')),\n        ])\n\n        hash_cls = getattr(hashes, self.halg.name)\n        kek_len = self.encalg.key_size // 8\n        ckdf = ConcatKDFHash(algorithm=hash_cls(), length=kek_len, otherinfo=param, backend=default_backend())")
T('C03', 'ag-ecdh-decrypt-swap-extend-list', FL, '        if km.oid == EllipticCurveOID.Curve25519:\n            v = x25519.X25519PublicKey.from_public_bytes(self.p.x)\n            s = km.__privkey__().exchange(v)\n        else:\n            # assemble the public component of ephemeral key v\n            v = ec.EllipticCurvePublicNumbers(self.p.x, self.p.y, km.oid.curve()).public_key(default_backend())\n            # compute s using the inverse of how it was derived during encryption\n            s = km.__privkey__().exchange(ec.ECDH(), v)\n\n        # derive the wrapping key\n        z = km.kdf.derive_key(s, km.oid, PubKeyAlgorithm.ECDH, pk.fingerprint)\n\n        # unwrap and unpad m\n        _m = aes_key_unwrap(z, self.c, default_backend())\n\n        padder = PKCS7(64).unpadder()\n        return padder.update(_m) + padder.finalize()',
  '        if km.oid != EllipticCurveOID.Curve25519:\n            # assemble the public component of ephemeral key v\n            numbers = ec.EllipticCurvePublicNumbers(self.p.x, self.p.y, km.oid.curve())\n            eph_pub = numbers.public_key(default_backend())\n            # compute s using the inverse of how it was derived during encryption\n            shared = km.__privkey__().exchange(ec.ECDH(), eph_pub)\n        else:\n            eph_pub = x25519.X25519PublicKey.from_public_bytes(self.p.x)\n            shared = km.__privkey__().exchange(eph_pub)\n\n        # derive the wrapping key, then unwrap and unpad m\n        kek = km.kdf.derive_key(shared, km.oid, PubKeyAlgorithm.ECDH, pk.fingerprint)\n        padded = aes_key_unwrap(wrapping_key=kek, wrapped_key=self.c, backend=default_backend())\n\n        unpadder = PKCS7(64).unpadder()\n        return unpadder.update(padded) + unpadder.finalize()',
  more=[(FL, '        _bytes += self.p.to_mpibytes()\n        _bytes.append(len(self.c))\n        _bytes += self.c', '        _bytes.extend(self.p.to_mpibytes())\n        _bytes.extend([len(self.c)])\n        _bytes.extend(self.c)')])
T('C03', 'ag-compress-elif-consts-wbits-kw', CO, '# this is 50 KiB',
  '# raw DEFLATE (RFC 1951) streams carry neither the 2-octet zlib header nor the 4-octet Adler-32 trailer\n_ZLIB_HEADER_LEN = 2\n_ZLIB_TRAILER_LEN = 4\n_RAW_DEFLATE_WBITS = -15\n\n# this is 50 KiB',
  more=[(CO, '            return data\n\n        if self is CompressionAlgorithm.ZIP:\n            return zlib.compress(data)[2:-4]\n\n        if self is CompressionAlgorithm.ZLIB:\n            return zlib.compress(data)\n\n        if self is CompressionAlgorithm.BZ2:\n            return bz2.compress(data)\n\n        raise NotImplementedError(self)\n\n    def decompress(self, data):\n        if self is CompressionAlgorithm.Uncompressed:\n            return data\n\n        if self is CompressionAlgorithm.ZIP:\n            return zlib.decompress(data, -15)\n\n        if self is CompressionAlgorithm.ZLIB:\n            return zlib.decompress(data)\n\n        if self is CompressionAlgorithm.BZ2:\n            return bz2.decompress(data)\n\n        raise NotImplementedError(self)', '            out = data\n\n        elif self is CompressionAlgorithm.ZIP:\n            out = zlib.compress(data)[_ZLIB_HEADER_LEN:-_ZLIB_TRAILER_LEN]\n\n        elif self is CompressionAlgorithm.ZLIB:\n            out = zlib.compress(data)\n\n        elif self is CompressionAlgorithm.BZ2:\n            out = bz2.compress(data)\n\n        else:\n            raise NotImplementedError(self)\n\n        return out\n\n    def decompress(self, data):\n        if self is CompressionAlgorithm.Uncompressed:\n            out = data\n\n        elif self is CompressionAlgorithm.ZIP:\n            out = zlib.decompress(data, wbits=_RAW_DEFLATE_WBITS)\n\n        elif self is CompressionAlgorithm.ZLIB:\n            out = zlib.decompress(data)\n\n        elif self is CompressionAlgorithm.BZ2:\n            out = bz2.decompress(data)\n\n        else:\n            raise NotImplementedError(self)\n\n        return out')])
T('C03', 'ag-zip-explicit-slice-bound', CO, '# this is 50 KiB',
  '_RAW_DEFLATE_WBITS = -15\n\n# this is 50 KiB',
  more=[(CO, '            return zlib.compress(data)[2:-4]', '            zdata = zlib.compress(data)\n            return zdata[2:len(zdata) - 4]'),
        (CO, '            return zlib.decompress(data, -15)', '            return zlib.decompress(data, _RAW_DEFLATE_WBITS)')])
T('C13', 'ag-urandom-from-import', CO, 'import warnings',
  '\nfrom os import urandom\nimport warnings',
  more=[(CO, '        return os.urandom(self.block_size // 8)\n\n    def gen_key(self):\n        return os.urandom(self.key_size // 8)', '        nbytes = self.block_size // 8\n        return urandom(nbytes)\n\n    def gen_key(self):\n        nbytes = self.key_size // 8\n        return urandom(nbytes)')])
T('C03', 'ag-select-loop-else-raise', PGP, '        pkesk = next(pk for pk in message._sessionkeys if isinstance(pk, PKESessionKey)\n                     and pk.pkalg == self.key_algorithm and pk.encrypter == self.fingerprint.keyid)',
  '        for candidate in message._sessionkeys:\n            if not isinstance(candidate, PKESessionKey):\n                continue\n\n            if candidate.pkalg == self.key_algorithm and candidate.encrypter == self.fingerprint.keyid:\n                pkesk = candidate\n                break\n\n        else:\n            raise StopIteration\n')
T('C03', 'ag-select-loop-var-is-result', PGP, '        pkesk = next(pk for pk in message._sessionkeys if isinstance(pk, PKESessionKey)\n                     and pk.pkalg == self.key_algorithm and pk.encrypter == self.fingerprint.keyid)',
  '        for pkesk in message._sessionkeys:\n            if (isinstance(pkesk, PKESessionKey)\n                    and pkesk.pkalg == self.key_algorithm and pkesk.encrypter == self.fingerprint.keyid):\n                break\n        else:\n            raise StopIteration')
T('C13', 'ag-keyblob-tuple-temps-pow-const', FL, '    @property\n    def __mpis__(self):\n        for i in super(PrivKey, self).__mpis__:',
  '    # RFC 4880 3.7.1.2: salted S2K specifiers carry 8 octets of salt\n    _S2K_SALT_LEN = 2 ** 3\n\n    @property\n    def __mpis__(self):\n        for i in super(PrivKey, self).__mpis__:',
  more=[(FL, '    def encrypt_keyblob(self, passphrase, enc_alg, hash_alg):\n        # PGPy will only ever use iterated and salted S2k mode\n        self.s2k.usage = 254\n        self.s2k.encalg = enc_alg\n        self.s2k.specifier = String2KeyType.Iterated\n        self.s2k.iv = enc_alg.gen_iv()\n        self.s2k.halg = hash_alg\n        self.s2k.salt = bytearray(os.urandom(8))', '    def _privfield_bytes(self):\n        """the secret MPIs of this key, in packet order"""\n        _bytes = bytearray()\n        for pf in self.__privfields__:\n            _bytes += getattr(self, pf).to_mpibytes()\n        return _bytes\n\n    def encrypt_keyblob(self, passphrase, enc_alg, hash_alg):\n        # PGPy will only ever use iterated and salted S2k mode\n        self.s2k.usage = 254\n        self.s2k.encalg = enc_alg\n        self.s2k.specifier = String2KeyType.Iterated\n        iv, salt = enc_alg.gen_iv(), os.urandom(self._S2K_SALT_LEN)\n        self.s2k.iv, self.s2k.halg, self.s2k.salt = iv, hash_alg, bytearray(salt)'),
        (FL, "        pt = bytearray()\n        for pf in self.__privfields__:\n            pt += getattr(self, pf).to_mpibytes()\n\n        # append a SHA-1 hash of the plaintext so far to the plaintext\n        pt += hashlib.new('sha1', pt).digest()", "        pt = self._privfield_bytes()\n\n        # append a SHA-1 hash of the plaintext so far to the plaintext\n        sha1 = hashlib.new('sha1', pt).digest()\n        pt += sha1")])
T('C03', 'ag-seipd-inline-gen-iv', PK, '        iv = alg.gen_iv()',
  '        # block_size // 8 random octets, then the last two of them once more\n        iv = os.urandom(alg.block_size // 8)')
T('C13', 'ag-seipd-inline-gen-iv', PK, '        iv = alg.gen_iv()',
  '        # block_size // 8 random octets, then the last two of them once more\n        iv = os.urandom(alg.block_size // 8)')
T('C13', 'ag-inline-gen-key', PGP, '            sessionkey = cipher_algo.gen_key()\n        skesk.encrypt_sk(passphrase, sessionkey)',
  '            sessionkey = os.urandom(cipher_algo.key_size // 8)\n        skesk.encrypt_sk(passphrase, sessionkey)',
  more=[(PGP, '            sessionkey = cipher_algo.gen_key()', '            sessionkey = os.urandom(cipher_algo.key_size // 8)')])
T('C03', 'ag-cipher-table-aliases-get', CO, "        bs = {SymmetricKeyAlgorithm.IDEA: algorithms.IDEA,\n              SymmetricKeyAlgorithm.TripleDES: algorithms.TripleDES,\n              SymmetricKeyAlgorithm.CAST5: algorithms.CAST5,\n              SymmetricKeyAlgorithm.Blowfish: algorithms.Blowfish,\n              SymmetricKeyAlgorithm.AES128: algorithms.AES,\n              SymmetricKeyAlgorithm.AES192: algorithms.AES,\n              SymmetricKeyAlgorithm.AES256: algorithms.AES,\n              SymmetricKeyAlgorithm.Twofish256: namedtuple('Twofish256', ['block_size'])(block_size=128),\n              SymmetricKeyAlgorithm.Camellia128: algorithms.Camellia,\n              SymmetricKeyAlgorithm.Camellia192: algorithms.Camellia,\n              SymmetricKeyAlgorithm.Camellia256: algorithms.Camellia}\n\n        if self in bs:\n            return bs[self]\n\n        raise NotImplementedError(repr(self))",
  "        cls = SymmetricKeyAlgorithm\n        aes, camellia = algorithms.AES, algorithms.Camellia\n        # Twofish is not provided by cryptography; only its block size is known\n        twofish = namedtuple('Twofish256', ['block_size'])(block_size=128)\n\n        impls = {cls.IDEA: algorithms.IDEA,\n                 cls.TripleDES: algorithms.TripleDES,\n                 cls.CAST5: algorithms.CAST5,\n                 cls.Blowfish: algorithms.Blowfish,\n                 cls.AES128: aes, cls.AES192: aes, cls.AES256: aes,\n                 cls.Twofish256: twofish,\n                 cls.Camellia128: camellia, cls.Camellia192: camellia, cls.Camellia256: camellia}\n\n        impl = impls.get(self)\n        if impl is None:\n            raise NotImplementedError(repr(self))\n\n        return impl")
T('C13', 'ag-cipher-table-aliases-get', CO, "        bs = {SymmetricKeyAlgorithm.IDEA: algorithms.IDEA,\n              SymmetricKeyAlgorithm.TripleDES: algorithms.TripleDES,\n              SymmetricKeyAlgorithm.CAST5: algorithms.CAST5,\n              SymmetricKeyAlgorithm.Blowfish: algorithms.Blowfish,\n              SymmetricKeyAlgorithm.AES128: algorithms.AES,\n              SymmetricKeyAlgorithm.AES192: algorithms.AES,\n              SymmetricKeyAlgorithm.AES256: algorithms.AES,\n              SymmetricKeyAlgorithm.Twofish256: namedtuple('Twofish256', ['block_size'])(block_size=128),\n              SymmetricKeyAlgorithm.Camellia128: algorithms.Camellia,\n              SymmetricKeyAlgorithm.Camellia192: algorithms.Camellia,\n              SymmetricKeyAlgorithm.Camellia256: algorithms.Camellia}\n\n        if self in bs:\n            return bs[self]\n\n        raise NotImplementedError(repr(self))",
  "        cls = SymmetricKeyAlgorithm\n        aes, camellia = algorithms.AES, algorithms.Camellia\n        # Twofish is not provided by cryptography; only its block size is known\n        twofish = namedtuple('Twofish256', ['block_size'])(block_size=128)\n\n        impls = {cls.IDEA: algorithms.IDEA,\n                 cls.TripleDES: algorithms.TripleDES,\n                 cls.CAST5: algorithms.CAST5,\n                 cls.Blowfish: algorithms.Blowfish,\n                 cls.AES128: aes, cls.AES192: aes, cls.AES256: aes,\n                 cls.Twofish256: twofish,\n                 cls.Camellia128: camellia, cls.Camellia192: camellia, cls.Camellia256: camellia}\n\n        impl = impls.get(self)\n        if impl is None:\n            raise NotImplementedError(repr(self))\n\n        return impl")
T('C03', 'ag-seipd-quickcheck-len-slice', PK, '        data = iv + iv[-2:] + data',
  '        quick_check = iv[len(iv) - 2:]\n        data = iv + quick_check + data')
T('C03', 'ag-select-filter-predicate', PGP, '        pkesk = next(pk for pk in message._sessionkeys if isinstance(pk, PKESessionKey)\n                     and pk.pkalg == self.key_algorithm and pk.encrypter == self.fingerprint.keyid)',
  '        def is_mine(pk):\n            return (isinstance(pk, PKESessionKey)\n                    and pk.pkalg == self.key_algorithm\n                    and pk.encrypter == self.fingerprint.keyid)\n\n        pkesk = next(filter(is_mine, message._sessionkeys))')
T('C13', 'ag-geniv-divmod-truediv', CO, '        return os.urandom(self.block_size // 8)\n\n    def gen_key(self):\n        return os.urandom(self.key_size // 8)',
  '        nbytes, _ = divmod(self.block_size, 8)\n        return os.urandom(nbytes)\n\n    def gen_key(self):\n        bits = self.key_size\n        return os.urandom(int(bits / 8))')
T('C03', 'ag-compress-dispatch-dict', CO, '        if self is CompressionAlgorithm.ZIP:\n            return zlib.compress(data)[2:-4]\n\n        if self is CompressionAlgorithm.ZLIB:\n            return zlib.compress(data)\n\n        if self is CompressionAlgorithm.BZ2:\n            return bz2.compress(data)',
  '        codecs = {CompressionAlgorithm.ZIP: lambda d: zlib.compress(d)[2:-4],\n                  CompressionAlgorithm.ZLIB: zlib.compress,\n                  CompressionAlgorithm.BZ2: bz2.compress}\n\n        if self in codecs:\n            return codecs[self](data)',
  more=[(CO, '        if self is CompressionAlgorithm.ZIP:\n            return zlib.decompress(data, -15)\n\n        if self is CompressionAlgorithm.ZLIB:\n            return zlib.decompress(data)\n\n        if self is CompressionAlgorithm.BZ2:\n            return bz2.decompress(data)', '        codecs = {CompressionAlgorithm.ZIP: lambda d: zlib.decompress(d, -15),\n                  CompressionAlgorithm.ZLIB: zlib.decompress,\n                  CompressionAlgorithm.BZ2: bz2.decompress}\n\n        if self in codecs:\n            return codecs[self](data)')])
T('C03', 'ag-pkesk-match-statement', PK, '        if self.pkalg == PubKeyAlgorithm.RSAEncryptOrSign:\n            encrypter = pk.keymaterial.__pubkey__().encrypt\n            encargs = (bytes(m), padding.PKCS1v15(),)\n\n        elif self.pkalg == PubKeyAlgorithm.ECDH:\n            encrypter = pk\n            encargs = (bytes(m),)\n\n        else:\n            raise NotImplementedError(self.pkalg)',
  '        match self.pkalg:\n            case PubKeyAlgorithm.RSAEncryptOrSign:\n                encrypter = pk.keymaterial.__pubkey__().encrypt\n                encargs = (bytes(m), padding.PKCS1v15(),)\n\n            case PubKeyAlgorithm.ECDH:\n                encrypter = pk\n                encargs = (bytes(m),)\n\n            case _:\n                raise NotImplementedError(self.pkalg)')
T('C03', 'ag-pkesk-checksum-loop', PK, '        m = bytearray(self.int_to_bytes(symalg) + symkey)\n        m += self.int_to_bytes(sum(bytearray(symkey)) % 65536, 2)\n\n        if self.pkalg == PubKeyAlgorithm.RSAEncryptOrSign:\n            encrypter = pk.keymaterial.__pubkey__().encrypt\n            encargs = (bytes(m), padding.PKCS1v15(),)\n\n        elif self.pkalg == PubKeyAlgorithm.ECDH:\n            encrypter = pk\n            encargs = (bytes(m),)',
  '        body = self.int_to_bytes(symalg) + symkey\n\n        total = 0\n        for octet in bytearray(symkey):\n            total += octet\n\n        m = bytes(body + self.int_to_bytes(total % 65536, 2))\n\n        if self.pkalg == PubKeyAlgorithm.RSAEncryptOrSign:\n            encrypter = pk.keymaterial.__pubkey__().encrypt\n            encargs = (m, padding.PKCS1v15(),)\n\n        elif self.pkalg == PubKeyAlgorithm.ECDH:\n            encrypter = pk\n            encargs = (m,)')
T('C13', 'ag-ecdh-pad-join-kwargs', FL, '    @classmethod\n    def encrypt(cls, pk, *args):',
  '    # RFC 6637 section 8: m is PKCS5-padded to a multiple of the 8-octet AES key wrap block\n    _PAD_BLOCK_BITS = 8 * 8\n\n    @classmethod\n    def encrypt(cls, pk, *args):',
  more=[(FL, '        padder = PKCS7(64).padder()\n        m = padder.update(_m) + padder.finalize()', "        padder = PKCS7(cls._PAD_BLOCK_BITS).padder()\n        m = b''.join((padder.update(_m), padder.finalize()))"),
        (FL, '        ct.c = aes_key_wrap(z, m, default_backend())', '        ct.c = aes_key_wrap(wrapping_key=z, key_to_wrap=m, backend=default_backend())'),
        (FL, '        padder = PKCS7(64).unpadder()\n        return padder.update(_m) + padder.finalize()', '        unpadder = PKCS7(self._PAD_BLOCK_BITS).unpadder()\n        head = unpadder.update(_m)\n        return head + unpadder.finalize()')])
T('C03', 'ag-msg-decrypt-list-early-return', PGP, '        for skesk in iter(sk for sk in self._sessionkeys if isinstance(sk, SKESessionKey)):',
  '        candidates = [esk for esk in self._sessionkeys if isinstance(esk, SKESessionKey)]\n        for skesk in candidates:',
  more=[(PGP, '            else:\n                del passphrase\n                break\n\n        else:\n            raise PGPDecryptionError("Decryption failed")\n\n        return decmsg', '            del passphrase\n            return decmsg\n\n        raise PGPDecryptionError("Decryption failed")')])
T('C03', 'ag-pgp-shared-seipd-builder', PGP, 'class PGPSignature(Armorable, ParentRef, PGPObject):',
  'def _protect(plaintext, sessionkey, cipher_algo):\n    # wrap serialized packets in a Sym. Encrypted Integrity Protected Data packet\n    skedata = IntegrityProtectedSKEDataV1()\n    skedata.encrypt(sessionkey, cipher_algo, plaintext)\n    return skedata\n\n\nclass PGPSignature(Armorable, ParentRef, PGPObject):',
  more=[(PGP, '            skedata = IntegrityProtectedSKEDataV1()\n            skedata.encrypt(sessionkey, cipher_algo, self.__bytes__())\n            msg |= skedata', '            msg |= _protect(self.__bytes__(), sessionkey, cipher_algo)'),
        (PGP, '            skedata = IntegrityProtectedSKEDataV1()\n            skedata.encrypt(sessionkey, cipher_algo, message.__bytes__())\n            _m |= skedata', '            _m |= _protect(message.__bytes__(), sessionkey, cipher_algo)')])
T('C13', 'ag-key-encrypt-walrus', PGP, "        if sessionkey is None:\n            sessionkey = cipher_algo.gen_key()\n\n        # set up a new PKESessionKeyV3\n        pkesk = PKESessionKeyV3()\n        pkesk.encrypter = bytearray(binascii.unhexlify(self.fingerprint.keyid.encode('latin-1')))\n        pkesk.pkalg = self.key_algorithm\n        pkesk.encrypt_sk(self._key, cipher_algo, sessionkey)",
  "        if (sk := sessionkey) is None:\n            sk = cipher_algo.gen_key()\n\n        # set up a new PKESessionKeyV3\n        pkesk = PKESessionKeyV3()\n        pkesk.encrypter = bytearray(binascii.unhexlify(self.fingerprint.keyid.encode('latin-1')))\n        pkesk.pkalg = self.key_algorithm\n        pkesk.encrypt_sk(self._key, cipher_algo, sk)",
  more=[(PGP, '            skedata.encrypt(sessionkey, cipher_algo, message.__bytes__())', '            skedata.encrypt(sk, cipher_algo, message.__bytes__())')])
# ---- mutants by an independent agent that the rules did not report before (now: result assembly, block size, RSA wiring, point encoding, decrypt side, salted S2K, confinement in _encrypt, ephemeral key)
M('C03', 'ag-msg-encrypt-attaches-plaintext', PGP, '            msg |= skedata',
  '            msg |= self', 'C03.7')
M('C03', 'ag-key-encrypt-attaches-plaintext', PGP, '            _m |= skedata',
  '            _m |= message', 'C03.7')
M('C03', 'ag-msg-encrypt-returns-self', PGP, '        return msg\n\n    def decrypt(self, passphrase):',
  '        return self\n\n    def decrypt(self, passphrase):', 'C03.7')
M('C03', 'ag-key-encrypt-pkesk-not-attached', PGP, '        _m |= pkesk\n\n        return _m',
  '        return _m', 'C03.7')
M('C03', 'ag-msg-encrypt-container-not-attached', PGP, '            msg |= skedata\n',
  '', 'C03.7')
M('C03', 'ag-key-encrypt-pkesk-on-input', PGP, '        _m |= pkesk',
  '        message |= pkesk', 'C03.7')
M('C03', 'ag-blocksize-is-keysize', CO, '        return self.cipher.block_size',
  '        return self.key_size', 'C03.4')
M('C13', 'ag-blocksize-is-keysize', CO, '        return self.cipher.block_size',
  '        return self.key_size', 'C13.1')
M('C03', 'ag-ecdh-mapped-to-elgamal-ct', PK, '              PubKeyAlgorithm.ECDH: ECDHCipherText}',
  '              PubKeyAlgorithm.ECDH: ElGCipherText}', 'C03.1')
M('C03', 'ag-rsa-ct-little-endian', FL, '        ct.me_mod_n = MPI(cls.bytes_to_int(encfn(*args)))',
  "        ct.me_mod_n = MPI(int.from_bytes(encfn(*args), 'little'))", 'C03.1')
M('C03', 'ag-rsa-ct-decrypt-drops-octet', FL, '        return decfn(*args)',
  '        return decfn(*args)[1:]', 'C03.1')
M('C03', 'ag-ecdh-point-bitlen-fixed', FL, '            ct.p = ECPoint.from_values(km.oid.key_size, ECPointFormat.Standard, x, y)',
  '            ct.p = ECPoint.from_values(EllipticCurveOID.NIST_P256.key_size, ECPointFormat.Standard, x, y)', 'C03.5')
M('C03', 'ag-seipd-no-update-hlen', PK, '        self.update_hlen()\n\n    def decrypt(self, key, alg):',
  '\n    def decrypt(self, key, alg):', 'C03.2')
M('C03', 'ag-pkesk-decrypt-keylen-blocksize', PK, '        symkey = m[:symalg.key_size // 8]\n        del m[:symalg.key_size // 8]',
  '        klen = symalg.block_size // 8\n        symkey = m[:klen]\n        del m[:klen]', 'C03.1')
M('C03', 'ag-seipd-decrypt-prefix-keysize', PK, '        iv = bytes(pt[:alg.block_size // 8])\n        del pt[:alg.block_size // 8]',
  '        iv = bytes(pt[:alg.key_size // 8])\n        del pt[:alg.key_size // 8]', 'C03.2')
M('C03', 'ag-decrypt-container-alg-fixed', PGP, '        decmsg.parse(message.message.decrypt(key, alg))',
  '        decmsg.parse(message.message.decrypt(key, SymmetricKeyAlgorithm.AES256))', 'C03.7')
M('C03', 'ag-msg-decrypt-args-swapped', PGP, '                decmsg.parse(self.message.decrypt(key, symalg))',
  '                decmsg.parse(self.message.decrypt(symalg, key))', 'C03.7')
M('C03', 'ag-msg-decrypt-no-class-filter', PGP, '        for skesk in iter(sk for sk in self._sessionkeys if isinstance(sk, SKESessionKey)):',
  '        for skesk in iter(sk for sk in self._sessionkeys):', 'C03.8')
M('C03', 'ag-select-first-element', PGP, '        pkesk = next(pk for pk in message._sessionkeys if isinstance(pk, PKESessionKey)\n                     and pk.pkalg == self.key_algorithm and pk.encrypter == self.fingerprint.keyid)',
  '        pkesk = message._sessionkeys[0]', 'C03.8')
M('C03', 'ag-select-filter-lambda-no-keyid', PGP, '        pkesk = next(pk for pk in message._sessionkeys if isinstance(pk, PKESessionKey)\n                     and pk.pkalg == self.key_algorithm and pk.encrypter == self.fingerprint.keyid)',
  '        mine = filter(lambda pk: isinstance(pk, PKESessionKey) and pk.pkalg == self.key_algorithm,\n                      message._sessionkeys)\n        pkesk = next(mine)', 'C03.8')
M('C03', 'ag-select-loop-falls-back', PGP, '        pkesk = next(pk for pk in message._sessionkeys if isinstance(pk, PKESessionKey)\n                     and pk.pkalg == self.key_algorithm and pk.encrypter == self.fingerprint.keyid)',
  '        pkesk = None\n        for pk in message._sessionkeys:\n            if not isinstance(pk, PKESessionKey):\n                continue\n            if pk.encrypter == self.fingerprint.keyid or pkesk is None:\n                pkesk = pk', 'C03.8')
M('C13', 'ag-s2k-simple-specifier', PGP, '        skesk.s2k.specifier = 3',
  '        skesk.s2k.specifier = 0', 'C13.2')
M('C13', 'ag-leak-symenc-global', SE, '    try:\n        encryptor = Cipher(alg.cipher(key), modes.CFB(iv), default_backend()).encryptor()',
  '    global _last_key\n    _last_key = key\n    try:\n        encryptor = Cipher(alg.cipher(key), modes.CFB(iv), default_backend()).encryptor()', 'C13.3')
M('C13', 'ag-leak-symenc-exception-text', SE, '        raise PGPEncryptionError from ex',
  '        raise PGPEncryptionError("cipher setup failed for key {!r}".format(key)) from ex', 'C13.3')
M('C13', 'ag-ephemeral-stored-on-ct', FL, '            s = v.exchange(ec.ECDH(), km.__pubkey__())',
  '            s = v.exchange(ec.ECDH(), km.__pubkey__())\n            ct._v = v', 'C13.2')
# ---- mutants disguised by a refactoring (helper / temporary introduced AND semantics changed)
M('C03', 'ag-pkesk-helper-checksum-offbyone', PK, '    def encrypt_sk(self, pk, symalg, symkey):\n        m = bytearray(self.int_to_bytes(symalg) + symkey)\n        m += self.int_to_bytes(sum(bytearray(symkey)) % 65536, 2)',
  '    def _session_block(self, symalg, symkey):\n        body = bytearray(self.int_to_bytes(symalg) + symkey)\n        chk = sum(body[1:-1]) % 65536\n        return body + self.int_to_bytes(chk, 2)\n\n    def encrypt_sk(self, pk, symalg, symkey):\n        m = self._session_block(symalg, symkey)', 'C03.1')
M('C03', 'ag-seipd-helper-prefix-first2', PK, '    def encrypt(self, key, alg, data):\n        iv = alg.gen_iv()\n        data = iv + iv[-2:] + data',
  '    @staticmethod\n    def _random_prefix(alg):\n        block = alg.gen_iv()\n        return block + block[:2]\n\n    def encrypt(self, key, alg, data):\n        data = self._random_prefix(alg) + data', 'C03.2')
M('C03', 'ag-symenc-helper-default-cfb8', SE, 'def _encrypt(pt, key, alg, iv=None):',
  'def _cipher(alg, key, iv, mode=modes.CFB8):\n    return Cipher(alg.cipher(key), mode(iv), default_backend())\n\n\ndef _encrypt(pt, key, alg, iv=None):', 'C03.4',
  more=[(SE, '        encryptor = Cipher(alg.cipher(key), modes.CFB(iv), default_backend()).encryptor()', '        encryptor = _cipher(alg, key, iv, modes.CFB).encryptor()'),
        (SE, '        decryptor = Cipher(alg.cipher(key), modes.CFB(iv), default_backend()).decryptor()', '        decryptor = _cipher(alg, key, iv).decryptor()')])
M('C03', 'ag-select-helper-or', PGP, '        pkesk = next(pk for pk in message._sessionkeys if isinstance(pk, PKESessionKey)\n                     and pk.pkalg == self.key_algorithm and pk.encrypter == self.fingerprint.keyid)',
  '        def _candidates():\n            for pk in message._sessionkeys:\n                if not isinstance(pk, PKESessionKey):\n                    continue\n                if pk.encrypter == self.fingerprint.keyid or pk.pkalg == self.key_algorithm:\n                    yield pk\n        pkesk = next(_candidates())', 'C03.8')

T('C03', 'twin-decrypt-wiring-keywords', PGP, "        decmsg.parse(message.message.decrypt(key, alg))\n\n        return decmsg\n\n    def parse(self, data):", "        recovered = (alg, key)\n        decmsg.parse(message.message.decrypt(alg=recovered[0], key=recovered[1]))\n\n        return decmsg\n\n    def parse(self, data):")
M('C03', 'decrypt-wiring-cipher-from-own-prefs', PGP, "        decmsg.parse(message.message.decrypt(key, alg))\n\n        return decmsg\n\n    def parse(self, data):", "        decmsg.parse(message.message.decrypt(key, SymmetricKeyAlgorithm.AES256))\n\n        return decmsg\n\n    def parse(self, data):", 'C03.7')

# =============================================================================================== C02
M('C02', 'hash2-last-two', PGP, "        sig._signature.hash2 = bytearray(h2.digest()[:2])", "        sig._signature.hash2 = bytearray(h2.digest()[-2:])", 'C02.2')
M('C02', 'signer-hashdata-none', PGP, "        _sig = self._key.sign(sigdata, getattr(hashes, sig.hash_algorithm.name)())", "        _sig = self._key.sign(sig.hashdata(None), getattr(hashes, sig.hash_algorithm.name)())", 'C02.2')
M('C02', 'addnew-unknown-keyword', PGP, "            sig._signature.subpackets.addnew('Policy', hashed=True, uri=policy_uri)", "            sig._signature.subpackets.addnew('Policy', hashed=True, url=policy_uri)", 'C02.3')
M('C02', 'hashed-addnew-after-hashdata', PGP, "        sigdata = sig.hashdata(subject)\n        h2 = sig.hash_algorithm.hasher", "        sigdata = sig.hashdata(subject)\n        sig._signature.subpackets.addnew('Features', hashed=True, flags=Features.pgpy_features)\n        h2 = sig.hash_algorithm.hasher", 'C02.2')
M('C02', 'eddsa-sig-width', FL, "        siglen = (EllipticCurveOID.Ed25519.key_size + 7) // 8\n        return self.int_to_bytes(self.r, siglen) + self.int_to_bytes(self.s, siglen)", "        return self.int_to_bytes(self.r, self.r.byte_length()) + self.int_to_bytes(self.s, self.s.byte_length())", 'C02.4')
M('C02', 'hash2-other-hash', PGP, "        h2 = sig.hash_algorithm.hasher\n        h2.update(sigdata)", "        h2 = HashAlgorithm.SHA256.hasher\n        h2.update(sigdata)", 'C02.2')
M('C02', 'signer-fixed-hash', PGP, "        _sig = self._key.sign(sigdata, getattr(hashes, sig.hash_algorithm.name)())", "        _sig = self._key.sign(sigdata, hashes.SHA256())", 'C02.2')
M('C02', 'expires-not-hashed', PGP, "            sig._signature.subpackets.addnew('SignatureExpirationTime', hashed=True, expires=expires)", "            sig._signature.subpackets.addnew('SignatureExpirationTime', expires=expires)", 'C02.3')
M('C02', 'revoke-subkey-as-key', PGP, "            else:\n                sig_type = SignatureType.SubkeyRevocation", "            else:\n                sig_type = SignatureType.KeyRevocation", 'C02.1c')
M('C02', 'certify-key-as-cert', PGP, "        if isinstance(subject, PGPKey):\n            sig_type = SignatureType.DirectlyOnKey\n\n        sig = PGPSignature.new", "        if isinstance(subject, PGPKey) and not subject.is_primary:\n            sig_type = SignatureType.DirectlyOnKey\n\n        sig = PGPSignature.new", 'C02.1c')
M('C02', 'issuer-from-parent', PGP, "        sig = PGPSignature.new(sig_type, self.key_algorithm, hash_algo, self.fingerprint.keyid, created=prefs.pop('created', None))\n\n        return self._sign(subject, sig, **prefs)",
  "        sig = PGPSignature.new(sig_type, self.key_algorithm, hash_algo, (self.parent or self).fingerprint.keyid, created=prefs.pop('created', None))\n\n        return self._sign(subject, sig, **prefs)", 'C02.1c')
M('C02', 'canonical-bytes-unhashed-kept', PK, "        _body += self.int_to_bytes(0, minlen=2)  # empty unhashed subpackets", "        _body += self.subpackets.__unhashbytearray__()", 'C02.5')
M('C02', 'canonical-bytes-len-2', PK, "        _hdr += self.int_to_bytes(len(_body), minlen=4)", "        _hdr += self.int_to_bytes(len(_body), minlen=2)", 'C02.5')
M('C02', 'sigv4-halg-before-pubalg', PK, "        _bytes += self.int_to_bytes(self.pubalg)\n        _bytes += self.int_to_bytes(self.halg)\n        _bytes += self.subpackets.__bytearray__()", "        _bytes += self.int_to_bytes(self.halg)\n        _bytes += self.int_to_bytes(self.pubalg)\n        _bytes += self.subpackets.__bytearray__()", 'C02.5')
M('C02', 'notation-len-chars', SS, "        _bytes += self.int_to_bytes(len(value), 2)", "        _bytes += self.int_to_bytes(len(self.value), 2)", 'C02.6')
M('C02', 'option-popped-unused', PGP, "        if policy_uri is not None:\n            sig._signature.subpackets.addnew('Policy', hashed=True, uri=policy_uri)\n", "", 'C02.3')
M('C02', 'no-update-hlen', PGP, "        sig._signature.signature.from_signer(_sig)\n        sig._signature.update_hlen()", "        sig._signature.signature.from_signer(_sig)", 'C02.2')
M('C02', 'ecdsa-rs-swapped', FL, "        self.r = MPI(seq[0])\n        self.s = MPI(seq[1])", "        self.r = MPI(seq[1])\n        self.s = MPI(seq[0])", 'C02.4')
M('C02', 'hashed-flag-ignored', FL, "        if hashed:\n            self['h_' + spname] = nsp\n\n        else:\n            self[spname] = nsp", "        self[spname] = nsp", 'C02.3')
T('C02', 'twin-digest-temp', PGP, "        sig._signature.hash2 = bytearray(h2.digest()[:2])", "        digest = h2.digest()\n        sig._signature.hash2 = bytearray(digest[0:2])")
T('C02', 'twin-kwargs-order', PGP, "            sig._signature.subpackets.addnew('Policy', hashed=True, uri=policy_uri)", "            sig._signature.subpackets.addnew('Policy', uri=policy_uri, hashed=True)")
T('C02', 'twin-sigtype-elif', PGP, "        if subject is None:\n            sig_type = SignatureType.Timestamp\n\n        if isinstance(subject, PGPMessage):", "        if subject is None:\n            sig_type = SignatureType.Timestamp\n\n        elif isinstance(subject, PGPMessage):")

# =============================================================================================== C05
M('C05', 'ignore-capture', FL, "        if self._hashed_raw is not None:\n            # signatures are computed over the octets that were received, not over a re-encoding of them\n            return bytearray(self._hashed_raw)\n\n", "", 'C05.2')
M('C05', 'capture-after-parse', FL, "        hashed_raw = packet[:2 + hl]\n        del packet[:2]", "        del packet[:2]\n        hashed_raw = packet[:2 + hl]", 'C05.1')
M('C05', 'capture-without-length', FL, "        hashed_raw = packet[:2 + hl]", "        hashed_raw = packet[2:2 + hl]", 'C05.1')
M('C05', 'capture-reserialised', FL, "        self._hashed_raw = hashed_raw\n", "        self._hashed_raw = self.__hashbytearray__()\n", 'C05.1')
M('C05', 'capture-stored-before-filing', FL, "        hashed_raw = packet[:2 + hl]\n        del packet[:2]", "        hashed_raw = packet[:2 + hl]\n        self._hashed_raw = hashed_raw\n        del packet[:2]", 'C05.1',
  more=[(FL, "            self['h_' + sp.__class__.__name__] = sp\n        self._hashed_raw = hashed_raw\n", "            self['h_' + sp.__class__.__name__] = sp\n")])
M('C05', 'no-invalidation', FL, "            d, key = self._hashed_sp, key[2:]\n            self._hashed_raw = None\n", "            d, key = self._hashed_sp, key[2:]\n", 'C05.3')
M('C05', 'copy-drops-capture', FL, "        sp._hashed_raw = copy.copy(self._hashed_raw)\n", "", 'C05.3')
M('C05', 'sigtype-masked', PK, "    def sigtype_int(self, val):\n        self._sigtype = SignatureType(val)\n\n    @sdproperty\n    def pubalg(self):\n        return self._pubalg\n\n    @pubalg.register(int)\n    @pubalg.register(PubKeyAlgorithm)\n    def pubalg_int(self, val):\n        self._pubalg = PubKeyAlgorithm(val)\n\n        sigs = {",
  "    def sigtype_int(self, val):\n        self._sigtype = SignatureType(val & 0x7f)\n\n    @sdproperty\n    def pubalg(self):\n        return self._pubalg\n\n    @pubalg.register(int)\n    @pubalg.register(PubKeyAlgorithm)\n    def pubalg_int(self, val):\n        self._pubalg = PubKeyAlgorithm(val)\n\n        sigs = {", 'C05.5')
M('C05', 'raw-when-small', FL, "        if self._hashed_raw is not None:\n            # signatures", "        if self._hashed_raw is not None and len(self._hashed_raw) < 4096:\n            # signatures", 'C05.2')
M('C05', 'hashdata-bypasses', PGP, "        hcontext += self._signature.subpackets.__hashbytearray__()", "        hcontext += self._signature.subpackets.__bytearray__()[:2 + sum(len(sp) for sp in self._signature.subpackets._hashed_sp.values())]", 'C05.4')
M('C05', 'hash-alg-getter-default', PGP, "        return self._signature.halg\n\n    def check_primitives(self):", "        return self._signature.halg or HashAlgorithm.SHA256\n\n    def check_primitives(self):", 'C05.5')
M('C05', 'aliases-capture', FL, "            return bytearray(self._hashed_raw)\n", "            return self._hashed_raw\n", 'C05.2')
T('C05', 'twin-hl-order', FL, "        hashed_raw = packet[:2 + hl]", "        hashed_raw = packet[:hl + 2]")
T('C05', 'twin-is-none-form', FL, "        if self._hashed_raw is not None:\n            # signatures are computed over the octets that were received, not over a re-encoding of them\n            return bytearray(self._hashed_raw)\n\n        _bytes = bytearray()\n        _bytes += self.int_to_bytes(sum(len(sp) for sp in self._hashed_sp.values()), 2)\n        for hsp in self._hashed_sp.values():\n            _bytes += hsp.__bytearray__()\n        return _bytes",
  "        if self._hashed_raw is None:\n            _bytes = bytearray()\n            _bytes += self.int_to_bytes(sum(len(sp) for sp in self._hashed_sp.values()), 2)\n            for hsp in self._hashed_sp.values():\n                _bytes += hsp.__bytearray__()\n            return _bytes\n        return bytearray(self._hashed_raw)")

# =============================================================================================== C07
M('C07', 'pubkey-iterates-mpis', PK, "        for pm in self.keymaterial.__pubfields__:\n            setattr(pk.keymaterial, pm, copy.copy(getattr(self.keymaterial, pm)))", "        for pm in self.keymaterial.__mpis__:\n            setattr(pk.keymaterial, pm, copy.copy(getattr(self.keymaterial, pm)))", 'C07.1')
M('C07', 'pubkey-builds-private', PK, "        pk = PubKeyV4() if not isinstance(self, PrivSubKeyV4) else PubSubKeyV4()", "        pk = PrivKeyV4() if not isinstance(self, PrivSubKeyV4) else PrivSubKeyV4()", 'C07.1')
M('C07', 'pubkey-copies-s2k', PK, "        pk.update_hlen()\n        return pk\n\n    @property\n    def protected(self):", "        pk.keymaterial.s2k = self.keymaterial.s2k\n        pk.update_hlen()\n        return pk\n\n    @property\n    def protected(self):", 'C07.1')
M('C07', 'twin-key-is-copy', PGP, "            pub._key = self._key.pubkey()", "            pub._key = copy.copy(self._key)", 'C07.2')
M('C07', 'twin-attaches-private-subkey', PGP, "                pub |= subkey.pubkey\n", "                pub |= subkey\n", 'C07.2')
M('C07', 'table-public-gets-private', PK, "            (True, PubKeyAlgorithm.RSAEncryptOrSign): RSAPub,", "            (True, PubKeyAlgorithm.RSAEncryptOrSign): RSAPriv,", 'C07.4')
M('C07', 'table-private-mismatch', PK, "            (False, PubKeyAlgorithm.ECDH): ECDHPriv,", "            (False, PubKeyAlgorithm.ECDH): ECDSAPriv,", 'C07.4')
M('C07', 'sign-without-is-public', PGP, "    @KeyAction(KeyFlags.Sign, is_unlocked=True, is_public=False)", "    @KeyAction(KeyFlags.Sign, is_unlocked=True)", 'C07.5')
M('C07', 'decrypt-public-ok', PGP, "    @KeyAction(is_unlocked=True, is_public=False)\n    def decrypt(self, message):", "    @KeyAction(is_unlocked=True)\n    def decrypt(self, message):", 'C07.5')
M('C07', 'check-after-action', DE, "                self.check_attributes(key)\n\n                # do the thing\n                return action(_key, *args, **kwargs)", "                # do the thing\n                res = action(_key, *args, **kwargs)\n                self.check_attributes(key)\n                return res", 'C07.5')
M('C07', 'check-attributes-eq', DE, "            if getattr(key, attr) != expected:", "            if getattr(key, attr) == expected:", 'C07.5')
M('C07', 'hashdata-private-packet', PGP, "        pub = self._key if self.is_public else self._key.pubkey()\n", "        pub = self._key\n", 'C07.3')
M('C07', 'is-public-drops-private-test', PGP, "        return isinstance(self._key, Public) and not isinstance(self._key, Private)\n\n    @property\n    def is_unlocked(self):", "        return isinstance(self._key, Public)\n\n    @property\n    def is_unlocked(self):", 'C07.6')
M('C07', 'export-adds-keymaterial', PGP, "        # subkeys\n        for sk in self._children.values():\n            _bytes += sk.__bytearray__()\n", "        # subkeys\n        for sk in self._children.values():\n            _bytes += sk.__bytearray__()\n        _bytes += self._key.keymaterial.__bytearray__()\n", 'C07.6')
M('C07', 'or-accepts-other-kind', PGP, "        elif isinstance(other, PGPKey) and not other.is_primary and other.is_public == self.is_public:", "        elif isinstance(other, PGPKey) and not other.is_primary:", 'C07.2')
T('C07', 'twin-pubkey-local', PK, "        pk.created = self.created\n        pk.pkalg = self.pkalg\n\n        # copy over MPIs", "        created = self.created\n        pk.created = created\n        pk.pkalg = self.pkalg\n\n        # copy over MPIs")
T('C07', 'twin-is-public-parens', PGP, "        return isinstance(self._key, Public) and not isinstance(self._key, Private)\n\n    @property\n    def is_unlocked(self):", "        return (not isinstance(self._key, Private)) and isinstance(self._key, Public)\n\n    @property\n    def is_unlocked(self):")

# =============================================================================================== C16
M('C16', 'sign-drops-unlocked', PGP, "    @KeyAction(KeyFlags.Sign, is_unlocked=True, is_public=False)", "    @KeyAction(KeyFlags.Sign, is_public=False)", 'C16.1')
M('C16', 'encrypt-private', PGP, "    @KeyAction(KeyFlags.EncryptCommunications, KeyFlags.EncryptStorage, is_public=True)", "    @KeyAction(KeyFlags.EncryptCommunications, KeyFlags.EncryptStorage, is_public=False)", 'C16.1')
M('C16', 'revoke-needs-sign', PGP, "    @KeyAction(KeyFlags.Certify, is_unlocked=True, is_public=False)\n    def revoke(self, target, **prefs):", "    @KeyAction(KeyFlags.Sign, is_unlocked=True, is_public=False)\n    def revoke(self, target, **prefs):", 'C16.1')
M('C16', 'raise-when-not-required', DE, "                if key._require_usage_flags:\n                    raise PGPError(warning)\n                else:\n                    logging.warning(warning)", "                if not key._require_usage_flags:\n                    raise PGPError(warning)\n                else:\n                    logging.warning(warning)", 'C16.3')
M('C16', 'flags-subset-test', DE, "                if self.flags & set(_key._get_key_flags(user)):", "                if self.flags <= set(_key._get_key_flags(user)):", 'C16.3')
M('C16', 'scan-subkeys-only', DE, "            for _key in _preiter(key, key.subkeys.values()):", "            for _key in key.subkeys.values():", 'C16.3')
M('C16', 'selfsig-oldest', PGP, "            for sig in reversed(self._signatures):\n                if sig.signer_fingerprint:", "            for sig in self._signatures:\n                if sig.signer_fingerprint:", 'C16.5')
M('C16', 'subkey-flags-oldest', PGP, "        return next(reversed(list(self.self_signatures))).key_flags", "        return next(self.self_signatures).key_flags", 'C16.5')
M('C16', 'issuer-from-parent', PGP, "        sig = PGPSignature.new(sig_type, self.key_algorithm, hash_algo, self.fingerprint.keyid, created=prefs.pop('created', None))\n\n        # signature options that only make sense in certifications",
  "        sig = PGPSignature.new(sig_type, self.key_algorithm, hash_algo, (self.parent or self).fingerprint.keyid, created=prefs.pop('created', None))\n\n        # signature options that only make sense in certifications", 'C16.4')
M('C16', 'recipient-primary-id', PGP, "        pkesk.encrypter = bytearray(binascii.unhexlify(self.fingerprint.keyid.encode('latin-1')))", "        pkesk.encrypter = bytearray(binascii.unhexlify((self.parent or self).fingerprint.keyid.encode('latin-1')))", 'C16.4')
M('C16', 'action-on-addressed-key', DE, "                return action(_key, *args, **kwargs)", "                return action(key, *args, **kwargs)", 'C16.2')
M('C16', 'no-uid-check-dropped', DE, "            if len(key._uids) == 0 and key.is_primary and action is not key.certify.__wrapped__:\n                raise PGPError(\"Key is not complete - please add a User ID!\")\n", "", 'C16.2')
M('C16', 'unlocked-when-protected', PGP, "        if not self.is_protected:\n            return True\n\n        return self._key.unlocked", "        if not self.is_protected:\n            return True\n\n        return True", 'C16.2')
M('C16', 'keyflags-unhashed', PGP, "            return next(iter(self._signature.subpackets['h_KeyFlags'])).flags", "            return next(iter(self._signature.subpackets['KeyFlags'])).flags", 'C16.5')
T('C16', 'twin-selfsig-slice', PGP, "            for sig in reversed(self._signatures):\n                if sig.signer_fingerprint:", "            for sig in reversed(list(self._signatures)):\n                if sig.signer_fingerprint:")
T('C16', 'twin-subkey-flags-index', PGP, "        return next(reversed(list(self.self_signatures))).key_flags", "        return list(self.self_signatures)[-1].key_flags")

# =============================================================================================== C18 (additions)
M('C18', 'pubkey-kdf-recomputed', PK, "            pk.keymaterial.kdf = copy.copy(self.keymaterial.kdf)", "            pk.keymaterial.kdf.halg = self.keymaterial.oid.kdf_halg\n            pk.keymaterial.kdf.encalg = self.keymaterial.oid.kek_alg", 'C18.6')
M('C18', 'issuer-fpr-from-parent', PGP, "_version=4, _issuer_fpr=self.fingerprint)", "_version=4, _issuer_fpr=(self.parent or self).fingerprint)", 'C18.7')
M('C18', 'pubkey-created-now', PK, "        pk.created = self.created\n        pk.pkalg = self.pkalg\n\n        # copy over MPIs", "        pk.pkalg = self.pkalg\n\n        # copy over MPIs", 'C18.6')

# =============================================================================================== C06
M('C06', 'no-finally', PGP, "        try:\n            for sk in itertools.chain([self], self.subkeys.values()):\n                sk._key.unprotect(passphrase)\n            del passphrase\n            yield self\n\n        finally:\n            # clean up here by deleting the previously decrypted secret key material\n            for sk in itertools.chain([self], self.subkeys.values()):\n                sk._key.keymaterial.clear()",
  "        for sk in itertools.chain([self], self.subkeys.values()):\n            sk._key.unprotect(passphrase)\n        del passphrase\n        yield self\n        for sk in itertools.chain([self], self.subkeys.values()):\n            sk._key.keymaterial.clear()", 'C06.1')
M('C06', 'clear-primary-only', PGP, "            # clean up here by deleting the previously decrypted secret key material\n            for sk in itertools.chain([self], self.subkeys.values()):\n                sk._key.keymaterial.clear()", "            # clean up here by deleting the previously decrypted secret key material\n            for sk in [self]:\n                sk._key.keymaterial.clear()", 'C06.1')
M('C06', 'yield-outside-try', PGP, "            del passphrase\n            yield self\n\n        finally:", "            del passphrase\n\n        finally:", 'C06.1',
  more=[(PGP, "                sk._key.keymaterial.clear()\n\n    def add_uid", "                sk._key.keymaterial.clear()\n        yield self\n\n    def add_uid")])
M('C06', 'clear-skips-u', FL, "        for field in self.__privfields__:\n            delattr(self, field)\n            setattr(self, field, MPI(0))", "        for field in self.__privfields__[:-1]:\n            delattr(self, field)\n            setattr(self, field, MPI(0))", 'C06.2')
M('C06', 'drop-sha1-guard', FL, "        if self.s2k.usage == 254 and not pt[-20:] == hashlib.new('sha1', pt[:-20]).digest():\n            # if the usage byte is 254, key material is followed by a 20-octet sha-1 hash of the rest\n            # of the key material block\n            raise PGPDecryptionError(\"Passphrase was incorrect!\")\n", "", 'C06.4')
M('C06', 'store-before-check', FL, "        kb = super(RSAPriv, self).decrypt_keyblob(passphrase)\n        del passphrase\n\n        self.d = MPI(kb)", "        self.d = MPI(bytearray(self.encbytes))\n        kb = super(RSAPriv, self).decrypt_keyblob(passphrase)\n        del passphrase\n\n        self.d = MPI(kb)", 'C06.4')
M('C06', 'emit-private-when-protected', FL, "        if self.s2k:\n            _bytes += self.encbytes\n\n        else:\n            for field in self.__privfields__:\n                _bytes += getattr(self, field).to_mpibytes()", "        if self.s2k:\n            _bytes += self.encbytes\n\n        for field in self.__privfields__:\n            _bytes += getattr(self, field).to_mpibytes()", 'C06.5')
M('C06', 'keyblob-no-clear', FL, "        # delete pt and clear self\n        del pt\n        self.clear()", "        # delete pt\n        del pt", 'C06.3')
M('C06', 'keyblob-usage-255', FL, "        self.s2k.usage = 254\n        self.s2k.encalg = enc_alg", "        self.s2k.usage = 255\n        self.s2k.encalg = enc_alg", 'C06.3')
M('C06', 'keyblob-hash-not-appended', FL, "        pt += hashlib.new('sha1', pt).digest()\n", "", 'C06.3')
M('C06', 'sign-no-unlocked', PGP, "    @KeyAction(KeyFlags.Sign, is_unlocked=True, is_public=False)", "    @KeyAction(KeyFlags.Sign, is_public=False)", 'C06.6')
M('C06', 'dsa-alias-consume', FL, "        if not self.s2k:\n            self.x = MPI(packet)\n\n            if self.s2k.usage == 0:\n                self.chksum = packet[:2]\n                del packet[:2]\n\n        else:\n            self.encbytes = packet\n\n    def decrypt_keyblob(self, passphrase):\n        kb = super(DSAPriv, self).decrypt_keyblob(passphrase)",
  "        if not self.s2k:\n            self.x = MPI(packet)\n\n        else:\n            self.encbytes = packet\n\n        if self.s2k.usage in [0, 255]:\n            self.chksum = packet[:2]\n            del packet[:2]\n\n    def decrypt_keyblob(self, passphrase):\n        kb = super(DSAPriv, self).decrypt_keyblob(passphrase)", 'C06.7')
M('C06', 'ecdsa-privkey-cached', FL, "    def __privkey__(self):\n        ecp = ec.EllipticCurvePublicNumbers(self.p.x, self.p.y, self.oid.curve())\n        return ec.EllipticCurvePrivateNumbers(self.s, ecp).private_key(default_backend())",
  "    def __privkey__(self):\n        if getattr(self, '_pk', None) is None:\n            ecp = ec.EllipticCurvePublicNumbers(self.p.x, self.p.y, self.oid.curve())\n            self._pk = ec.EllipticCurvePrivateNumbers(self.s, ecp).private_key(default_backend())\n        return self._pk", 'C06.2')
M('C06', 'unprotect-outside-try', PGP, "        try:\n            for sk in itertools.chain([self], self.subkeys.values()):\n                sk._key.unprotect(passphrase)\n            del passphrase\n            yield self",
  "        for sk in itertools.chain([self], self.subkeys.values()):\n            sk._key.unprotect(passphrase)\n        try:\n            del passphrase\n            yield self", 'C06.1')
T('C06', 'twin-clear-helper-var', PGP, "            for sk in itertools.chain([self], self.subkeys.values()):\n                sk._key.keymaterial.clear()", "            for k in itertools.chain([self], self.subkeys.values()):\n                k._key.keymaterial.clear()")
T('C06', 'twin-keyblob-pt-join', FL, "        pt += hashlib.new('sha1', pt).digest()\n", "        digest = hashlib.new('sha1', pt).digest()\n        pt += digest\n")

# =============================================================================================== C10
M('C10', 'crc-init', TY, "    __crc24_init = 0x0B704CE", "    __crc24_init = 0x0B704CF", 'C10.1')
M('C10', 'crc-poly', TY, "    __crc24_poly = 0x1864CFB", "    __crc24_poly = 0x864CFB", 'C10.1')
M('C10', 'crc-shift-8', TY, "            crc ^= b << 16", "            crc ^= b << 8", 'C10.1')
M('C10', 'crc-rounds-7', TY, "            for i in range(8):\n                crc <<= 1", "            for i in range(7):\n                crc <<= 1", 'C10.1')
M('C10', 'crc-mask', TY, "        return crc & 0xFFFFFF", "        return crc & 0xFFFF", 'C10.1')
M('C10', 'crc-of-text', TY, "            crc=base64.b64encode(PGPObject.int_to_bytes(self.crc24(self.__bytes__()), 3)).decode('latin-1')", "            crc=base64.b64encode(PGPObject.int_to_bytes(self.crc24(payload.encode()), 3)).decode('latin-1')", 'C10.2')
M('C10', 'crc-width-4', TY, "            crc=base64.b64encode(PGPObject.int_to_bytes(self.crc24(self.__bytes__()), 3)).decode('latin-1')", "            crc=base64.b64encode(PGPObject.int_to_bytes(self.crc24(self.__bytes__()), 4)).decode('latin-1')", 'C10.2')
M('C10', 'wrap-80', TY, "        payload = '\\n'.join(payload[i:(i + 64)] for i in range(0, len(payload), 64))", "        payload = '\\n'.join(payload[i:(i + 80)] for i in range(0, len(payload), 80))", 'C10.3')
M('C10', 'wrap-step-mismatch', TY, "        payload = '\\n'.join(payload[i:(i + 64)] for i in range(0, len(payload), 64))", "        payload = '\\n'.join(payload[i:(i + 64)] for i in range(0, len(payload), 76))", 'C10.3')
M('C10', 'label-pgp-key', PGP, "        return '{:s} KEY BLOCK'.format(", "        return '{:s} KEY'.format(", 'C10.4')
M('C10', 'end-label-differs', TY, "                  '-----END PGP {block_type}-----\\n'", "                  '-----END PGP MESSAGE-----\\n'", 'C10.2')
M('C10', 'sig-kind-check-inverted', PGP, "        if unarmored['magic'] is not None and unarmored['magic'] != 'SIGNATURE':", "        if unarmored['magic'] is not None and unarmored['magic'] == 'SIGNATURE':", 'C10.5')
M('C10', 'key-kind-check-dropped', PGP, "        if unarmored['magic'] is not None and 'KEY' not in unarmored['magic']:\n            raise ValueError('Expected: KEY. Got: {}'.format(str(unarmored['magic'])))\n", "", 'C10.5')
M('C10', 'msg-accepts-key', PGP, "        if unarmored['magic'] is not None and unarmored['magic'] not in ['MESSAGE', 'SIGNATURE']:", "        if unarmored['magic'] is not None and unarmored['magic'] not in ['MESSAGE', 'SIGNATURE', 'PUBLIC KEY BLOCK']:", 'C10.5')
M('C10', 'crc-mismatch-ignored', TY, "            if Armorable.crc24(m['body']) != m['crc']:\n                warnings.warn('Incorrect crc24', stacklevel=3)", "            if Armorable.crc24(m['body']) != m['crc']:\n                pass", 'C10.6')
M('C10', 'crc-compare-eq', TY, "            if Armorable.crc24(m['body']) != m['crc']:", "            if Armorable.crc24(m['body']) == m['crc']:", 'C10.6')
M('C10', 'message-cleartext-label', PGP, "        if self.type == 'cleartext':\n            return \"SIGNATURE\"\n        return \"MESSAGE\"", "        if self.type == 'cleartext':\n            return \"SIGNED MESSAGE\"\n        return \"MESSAGE\"", 'C10.4')
M('C10', 'header-sep', TY, "headers=''.join('{key}: {val}\\n'.format(key=key, val=val)", "headers=''.join('{key}:{val}\\n'.format(key=key, val=val)", 'C10.7')
T('C10', 'twin-crc-hex', TY, "        return crc & 0xFFFFFF", "        return crc & 16777215")
T('C10', 'twin-payload-var', TY, "        payload = base64.b64encode(self.__bytes__()).decode('latin-1')\n        payload = '\\n'.join(payload[i:(i + 64)] for i in range(0, len(payload), 64))", "        b64 = base64.b64encode(self.__bytes__()).decode('latin-1')\n        payload = '\\n'.join(b64[i:(i + 64)] for i in range(0, len(b64), 64))")

# =============================================================================================== C11
M('C11', 'escape-two-spaces', PGP, "        return re.subn(r'^-', '- -', text, flags=re.MULTILINE)[0]", "        return re.subn(r'^-', '-  -', text, flags=re.MULTILINE)[0]", 'C11.1')
M('C11', 'unescape-no-multiline', PGP, "        return re.subn(r'^- ', '', text, flags=re.MULTILINE)[0]", "        return re.subn(r'^- ', '', text)[0]", 'C11.1')
M('C11', 'escape-replace', PGP, "        return re.subn(r'^-', '- -', text, flags=re.MULTILINE)[0]", "        return text.replace('\\n-', '\\n- -')", 'C11.1')
M('C11', 'escape-only-five-dashes', PGP, "        return re.subn(r'^-', '- -', text, flags=re.MULTILINE)[0]", "        return re.subn(r'^-----', '- -----', text, flags=re.MULTILINE)[0]", 'C11.1')
M('C11', 'unescape-twice', PGP, "            self |= self.dash_unescape(unarmored['cleartext'])", "            self |= self.dash_unescape(self.dash_unescape(unarmored['cleartext']))", 'C11.2')
M('C11', 'no-escape-on-write', PGP, "                               cleartext=self.dash_escape(self.bytes_to_text(self._message)),", "                               cleartext=self.bytes_to_text(self._message),", 'C11.2')
M('C11', 'crlf-to-lf', PGP, "            _data += re.subn(br'\\r?\\n', b'\\r\\n', subject)[0]", "            _data += re.subn(br'\\r?\\n', b'\\n', subject)[0]", 'C11.4')
M('C11', 'lone-cr-converted', PGP, "            _data += re.subn(br'\\r?\\n', b'\\r\\n', subject)[0]", "            _data += re.subn(br'\\r\\n|\\r|\\n', b'\\r\\n', subject)[0]", 'C11.4')
M('C11', 'text-signed-as-binary', PGP, "            if subject.type == 'cleartext':\n                sig_type = SignatureType.CanonicalDocument\n", "", 'C11.6')
M('C11', 'sign-raw-message', PGP, "            subject = subject._signed_data\n\n        sig = PGPSignature.new", "            subject = subject.message\n\n        sig = PGPSignature.new", 'C11.4')
M('C11', 'verify-raw-message', PGP, "                    sspairs.append((sig, subject._signed_data))", "                    sspairs.append((sig, subject.message))", 'C11.4')
M('C11', 'strip-spaces-only', PGP, "            return re.subn(r'[ \\t]+(?=\\r?$)', '', self.message, flags=re.MULTILINE)[0]", "            return re.subn(r'[ ]+(?=\\r?$)', '', self.message, flags=re.MULTILINE)[0]", 'C11.4')
M('C11', 'strip-not-multiline', PGP, "            return re.subn(r'[ \\t]+(?=\\r?$)', '', self.message, flags=re.MULTILINE)[0]", "            return re.subn(r'[ \\t]+(?=\\r?$)', '', self.message)[0]", 'C11.4')
M('C11', 'hash-header-greedy-newlines', TY, "(Hash:\\ (?P<hashes>[A-Za-z0-9\\-,]+)(?:\\r?\\n){2})?", "(Hash:\\ (?P<hashes>[A-Za-z0-9\\-,]+)(?:\\r?\\n)+)?", 'C11.3')
M('C11', 'hash-alphabet-no-digits', TY, "(Hash:\\ (?P<hashes>[A-Za-z0-9\\-,]+)(?:\\r?\\n){2})?", "(Hash:\\ (?P<hashes>[A-Za-z\\-,]+)(?:\\r?\\n){2})?", 'C11.3')
M('C11', 'final-line-greedy', TY, "(?P<cleartext>(.*\\r?\\n)*(.*?(?=\\r?\\n-{5})))(?:\\r?\\n)", "(?P<cleartext>(.*\\r?\\n)*(.*(?=\\r?\\n-{5})))(?:\\r?\\n)", 'C11.7')
T('C11', 'twin-sub-instead-of-subn', PGP, "        return re.subn(r'^- ', '', text, flags=re.MULTILINE)[0]", "        return re.sub(r'^- ', '', text, flags=re.MULTILINE)")
T('C11', 'twin-strip-at-end-line', PGP, "            return re.subn(r'[ \\t]+(?=\\r?$)', '', self.message, flags=re.MULTILINE)[0]", "            return re.sub(r'[\\t ]+(?=\\r?$)', '', self.message, flags=re.MULTILINE)")

# =============================================================================================== C09
M('C09', 'enc-191', TY, "            if 192 > nl:\n                return Header.int_to_bytes(nl)", "            if 191 > nl:\n                return Header.int_to_bytes(nl)", 'C09.1')
M('C09', 'enc-8383', TY, "            elif 8384 > nl:\n                elen", "            elif 8383 > nl:\n                elen", 'C09.1')
M('C09', 'dec-223', TY, "                elif 224 > fo:  # >= 192 is implied", "                elif 223 > fo:  # >= 192 is implied", 'C09.1')
M('C09', 'llen-8383', TY, "            elif 8384 > self.length:  # >= 192 is implied\n                return 2", "            elif 8383 > self.length:  # >= 192 is implied\n                return 2", 'C09.1')
M('C09', 'partial-mask', TY, "                    return (1 << (fo & 0x1f), 1, True)", "                    return (1 << (fo & 0x0f), 1, True)", 'C09.1')
M('C09', 'two-octet-formula', TY, "                elen = ((nl & 0xFF00) + (192 << 8)) + ((nl & 0xFF) - 192)", "                elen = ((nl & 0xFF00) + (192 << 8)) + (nl & 0xFF)", 'C09.1')
M('C09', 'two-octet-decode', TY, "                    return (((dlen - (192 << 8)) & 0xFF00) + ((dlen & 0xFF) + 192), 2, False)", "                    return (((dlen - (192 << 8)) & 0xFF00) + (dlen & 0xFF), 2, False)", 'C09.1')
M('C09', 'old-widen-gt', TY, "            while 0 < llen < 4 and self.length >= (1 << (8 * llen)):", "            while 0 < llen < 4 and self.length > (1 << (8 * llen)):", 'C09.2')
M('C09', 'old-width-frozen', TY, "            llen = self._llen\n            while 0 < llen < 4 and self.length >= (1 << (8 * llen)):\n                llen *= 2\n            return llen", "            return self._llen", 'C09.2')
M('C09', 'mpi-bits-plus-8', PT, "            fl = ((MPIs.bytes_to_int(num[:2]) + 7) // 8)", "            fl = ((MPIs.bytes_to_int(num[:2]) + 8) // 8)", 'C09.3')
M('C09', 'mpi-bytelen', PT, "        return ((self.bit_length() + 7) // 8)", "        return (self.bit_length() // 8) + 1", 'C09.3')
M('C09', 'count-bias', FL, "        return (16 + (self._count & 15)) << ((self._count >> 4) + 6)", "        return (16 + (self._count & 15)) << ((self._count >> 4) + 5)", 'C09.4')
M('C09', 'timetuple-again', PK, "        _bytes += self.int_to_bytes(calendar.timegm(self.mtime.utctimetuple()), 4)", "        _bytes += self.int_to_bytes(calendar.timegm(self.mtime.timetuple()), 4)", 'C09.5')
M('C09', 'timestamp-method', SS, "        _bytes += self.int_to_bytes(calendar.timegm(self.created.utctimetuple()), 4)", "        _bytes += self.int_to_bytes(int(self.created.timestamp()), 4)", 'C09.5')
M('C09', 'reader-naive', PK, "    def created_int(self, val):\n        self.created = datetime.fromtimestamp(val, timezone.utc)", "    def created_int(self, val):\n        self.created = datetime.fromtimestamp(val)", 'C09.5')
M('C09', 'critical-bit-6', ST, "        _bytes += self.int_to_bytes((int(self.critical) << 7) + self.typeid)", "        _bytes += self.int_to_bytes((int(self.critical) << 6) + self.typeid)", 'C09.6')
M('C09', 'typeid-mask', ST, "        self._typeid = val & 0x7f", "        self._typeid = val & 0x3f", 'C09.6')
M('C09', 'int-to-bytes-little', TY, "        blen = max(minlen, PGPObject.int_byte_len(i), 1)\n\n        return i.to_bytes(blen, order)", "        blen = max(minlen, PGPObject.int_byte_len(i))\n\n        return i.to_bytes(blen, order)", 'C09.7')
M('C09', 'type-map', PT, "{1: 0, 2: 1, 4: 2, 0: 3}[self.llen]", "{1: 0, 2: 1, 4: 3, 0: 2}[self.llen]", 'C09.2')
T('C09', 'twin-thresholds-flipped', TY, "            if 192 > nl:\n                return Header.int_to_bytes(nl)", "            if nl < 192:\n                return Header.int_to_bytes(nl)")
T('C09', 'twin-widen-form', TY, "            while 0 < llen < 4 and self.length >= (1 << (8 * llen)):", "            while 0 < llen < 4 and self.length > (1 << (8 * llen)) - 1:")

# =============================================================================================== C20
M('C20', 'ops-loop-forward', PGP, "            for sig in reversed(self._signatures):\n                ops = sig.make_onepass()", "            for sig in self._signatures:\n                ops = sig.make_onepass()", 'C20.2')
M('C20', 'trailing-sigs-reversed', PGP, "                yield self._mdc\n\n            for sig in self._signatures:\n                yield sig", "                yield self._mdc\n\n            for sig in reversed(self._signatures):\n                yield sig", 'C20.2')
M('C20', 'onepass-halg-wrong', PGP, "        onepass.halg = self.hash_algorithm\n", "        onepass.halg = self.key_algorithm\n", 'C20.3')
M('C20', 'literal-before-ops', PGP, "            for sig in reversed(self._signatures):\n                ops = sig.make_onepass()\n                # only the last one-pass packet, the one directly before the signed data, is flagged\n                if sig is self._signatures[0]:\n                    ops.nested = True\n                yield ops\n\n            yield self._message",
  "            yield self._message\n            for sig in reversed(self._signatures):\n                ops = sig.make_onepass()\n                # only the last one-pass packet, the one directly before the signed data, is flagged\n                if sig is self._signatures[0]:\n                    ops.nested = True\n                yield ops\n", 'C20.1')
M('C20', 'compress-literal-only', PGP, "            comp.packets = [pkt for pkt in self]", "            comp.packets = [self._message]", 'C20.5')
M('C20', 'session-keys-after-container', PGP, "            for pkt in self._sessionkeys:\n                yield pkt\n            yield self.message\n", "            yield self.message\n            for pkt in self._sessionkeys:\n                yield pkt\n", 'C20.1')
M('C20', 'flag-all-but-first', PGP, "                if sig is self._signatures[0]:\n                    ops.nested = True", "                if sig is not self._signatures[-1]:\n                    ops.nested = True", 'C20.4')
M('C20', 'flag-first-yielded', PGP, "                if sig is self._signatures[0]:\n                    ops.nested = True", "                if sig is self._signatures[-1]:\n                    ops.nested = True", 'C20.4')
M('C20', 'onepass-no-update-hlen', PGP, "        onepass.signer = self.signer\n        onepass.update_hlen()", "        onepass.signer = self.signer", 'C20.3')
M('C20', 'ops-bytes-order', PK, "        _bytes += bytearray([self.halg])\n        _bytes += bytearray([self.pubalg])\n        _bytes += binascii.unhexlify(self.signer.encode(\"latin-1\"))", "        _bytes += bytearray([self.pubalg])\n        _bytes += bytearray([self.halg])\n        _bytes += binascii.unhexlify(self.signer.encode(\"latin-1\"))", 'C20.6')
M('C20', 'literal-len-chars', PK, "        filename = self.filename.encode('utf-8')\n        _bytes += bytearray([len(filename)])\n        _bytes += filename", "        _bytes += bytearray([len(self.filename)])\n        _bytes += self.filename.encode('utf-8')", 'C20.6')
M('C20', 'literal-latin1-writer', PK, "        filename = self.filename.encode('utf-8')", "        filename = self.filename.encode('latin-1')", 'C20.6')
M('C20', 'sensitive-ignored', PGP, "            lit.filename = '_CONSOLE' if sensitive else os.path.basename(filename)", "            lit.filename = os.path.basename(filename)", 'C20.6')
M('C20', 'comp-calg-default', PGP, "            comp.calg = self._compression", "            comp.calg = CompressionAlgorithm.ZIP", 'C20.5')
M('C20', 'or-compressed-keeps-setting', PGP, "            self._compression = other.calg\n            for pkt in other.packets:", "            for pkt in other.packets:", 'C20.5')
M('C20', 'cached-onepass', PGP, "        onepass = OnePassSignatureV3()\n        onepass.sigtype = self.type", "        if getattr(self, '_ops', None) is not None:\n            return self._ops\n        onepass = self._ops = OnePassSignatureV3()\n        onepass.sigtype = self.type", 'C20.3')
T('C20', 'twin-ops-var', PGP, "                ops = sig.make_onepass()\n                # only the last one-pass packet, the one directly before the signed data, is flagged\n                if sig is self._signatures[0]:\n                    ops.nested = True\n                yield ops", "                onepass = sig.make_onepass()\n                if sig is self._signatures[0]:\n                    onepass.nested = True\n                yield onepass")
T('C20', 'twin-comp-list', PGP, "            comp.packets = [pkt for pkt in self]", "            comp.packets = [pkt for pkt in self]\n            assert comp.packets is not None")

# =============================================================================================== C14
M('C14', 'not-exportable-filter', PGP, "        for sig in iter(s for s in self._signatures if not s.embedded and s.exportable):", "        for sig in iter(s for s in self._signatures if not s.embedded and not s.exportable):", 'C14.1')
M('C14', 'uid-sigs-unfiltered', PGP, "            for s in [s for s in uid._signatures if s.exportable]:", "            for s in [s for s in uid._signatures]:", 'C14.1')
M('C14', 'subkeys-before-uids', PGP, "        # one or more User IDs, followed by their signatures\n        for uid in self._uids:\n            _bytes += uid._uid.__bytearray__()\n            for s in [s for s in uid._signatures if s.exportable]:\n                _bytes += s.__bytearray__()\n        # subkeys\n        for sk in self._children.values():\n            _bytes += sk.__bytearray__()\n",
  "        # subkeys\n        for sk in self._children.values():\n            _bytes += sk.__bytearray__()\n        # one or more User IDs, followed by their signatures\n        for uid in self._uids:\n            _bytes += uid._uid.__bytearray__()\n            for s in [s for s in uid._signatures if s.exportable]:\n                _bytes += s.__bytearray__()\n", 'C14.1')
M('C14', 'exportable-default-false', PGP, "            return bool(next(iter(self._signature.subpackets['ExportableCertification'])))\n\n        return True", "            return bool(next(iter(self._signature.subpackets['ExportableCertification'])))\n\n        return False", 'C14.2')
M('C14', 'copy-omits-subkeys', PGP, "        for id, subkey in self._children.items():\n            key |= copy.copy(subkey)\n\n", "", 'C14.4')
M('C14', 'grouping-on-signatures', PGP, "                    if pkt.header.tag != PacketTag.Signature:\n                        self.last", "                    if True:\n                        self.last", 'C14.3')
M('C14', 'boolean-typo', SS, "        self.bflag = bool(self.bytes_to_int(val))", "        self.bool = bool(self.bytes_to_int(val))", 'C14.2')
M('C14', 'uid-copy-drops-sigs', PGP, "        uid |= copy.copy(self._uid)\n        for sig in self._signatures:\n            uid |= copy.copy(sig)\n        return uid", "        uid |= copy.copy(self._uid)\n        return uid", 'C14.4')
M('C14', 'sig-dedup', PGP, "                [ operator.ior(pgpobj, PGPSignature() | sig) for sig in group if not isinstance(sig, Opaque) ]", "                [ operator.ior(pgpobj, PGPSignature() | sig) for sig in group if not isinstance(sig, Opaque) and sig.sigtype != 0x30 ]", 'C14.3')
M('C14', 'trust-not-filtered', PGP, "        getpkt = filter(lambda p: p.header.tag != PacketTag.Trust, iter(functools.partial(_getpkt, data), None))", "        getpkt = iter(functools.partial(_getpkt, data), None)", 'C14.3')
M('C14', 'uid-to-first-key', PGP, "                elif isinstance(pgpobj, PGPUID):\n                    # parent is likely the most recently parsed primary key\n                    keys[next(reversed(keys))] |= pgpobj", "                elif isinstance(pgpobj, PGPUID):\n                    # parent is likely the most recently parsed primary key\n                    keys[next(iter(keys))] |= pgpobj", 'C14.3')
M('C14', 'embedded-exported-at-key-level', PGP, "        for sig in iter(s for s in self._signatures if not s.embedded and s.exportable):", "        for sig in iter(s for s in self._signatures if s.exportable):", 'C14.1')
M('C14', 'key-copy-shares-packet', PGP, "        key._key = copy.copy(self._key)\n", "        key._key = self._key\n", 'C14.4')
M('C14', 'subpackets-copy-via-setitem', FL, "        sp = SubPackets()\n        sp._hashed_sp = self._hashed_sp.copy()\n        sp._unhashed_sp = self._unhashed_sp.copy()\n        sp._hashed_raw = copy.copy(self._hashed_raw)\n",
  "        sp = SubPackets()\n        sp._hashed_raw = copy.copy(self._hashed_raw)\n        for (n, _), v in self._hashed_sp.items():\n            sp['h_' + n] = v\n        sp._unhashed_sp = self._unhashed_sp.copy()\n", 'C14.4')
T('C14', 'twin-exportable-order', PGP, "        for sig in iter(s for s in self._signatures if not s.embedded and s.exportable):", "        for sig in iter(s for s in self._signatures if s.exportable and not s.embedded):")

# =============================================================================================== C08
M('C08', 'swap-two-reads', PK, "        self.halg = packet[0]\n        del packet[0]\n\n        self.pubalg = packet[0]\n        del packet[0]\n\n        self.signer = packet[:8]", "        self.pubalg = packet[0]\n        del packet[0]\n\n        self.halg = packet[0]\n        del packet[0]\n\n        self.signer = packet[:8]", 'C08.c')
M('C08', 'read-4-del-3', PK, "        self.mtime = packet[:4]\n        del packet[:4]", "        self.mtime = packet[:4]\n        del packet[:3]", 'C08.a')
M('C08', 'last-field-minus-5', PK, "        pend = self.header.length - 6\n        self.keymaterial.parse(packet[:pend])", "        pend = self.header.length - 5\n        self.keymaterial.parse(packet[:pend])", 'C08.d')
M('C08', 'writer-halg-before-pubalg', PK, "        _bytes += self.int_to_bytes(self.pubalg)\n        _bytes += self.int_to_bytes(self.halg)\n        _bytes += self.subpackets.__bytearray__()", "        _bytes += self.int_to_bytes(self.halg)\n        _bytes += self.int_to_bytes(self.pubalg)\n        _bytes += self.subpackets.__bytearray__()", 'C08.c')
M('C08', 'no-update-hlen-encrypt-sk', PK, "        self.ct = self.ct.encrypt(encrypter, *encargs)\n        self.update_hlen()", "        self.ct = self.ct.encrypt(encrypter, *encargs)", 'C08.h')
M('C08', 'utf16-writer', SS, "        _bytes += self.uri.encode()\n        return _bytes", "        _bytes += self.uri.encode('utf-16')\n        return _bytes", 'C08.f')
M('C08', 'latin1-reader', ST, "            return val.decode('utf-8')\n\n        except UnicodeDecodeError:", "            return val.decode('latin-1')\n\n        except UnicodeDecodeError:", 'C08.f')
M('C08', 'intended-recipient-remainder', SS, "        if self.version == 4:\n            fpr_len = 20\n        elif self.version == 5:  # pragma: no cover\n            fpr_len = 32\n        else:  # pragma: no cover\n            fpr_len = self.header.length - 2\n\n        self.intended_recipient = packet[:fpr_len]",
  "        fpr_len = self.header.length - 1\n\n        self.intended_recipient = packet[:fpr_len]", 'C08.d')
M('C08', 'dsa-alias-then-consume', FL, "        if not self.s2k:\n            self.x = MPI(packet)\n\n            if self.s2k.usage == 0:\n                self.chksum = packet[:2]\n                del packet[:2]\n\n        else:\n            self.encbytes = packet\n\n    def decrypt_keyblob(self, passphrase):\n        kb = super(ElGPriv, self).decrypt_keyblob(passphrase)",
  "        if not self.s2k:\n            self.x = MPI(packet)\n\n        else:\n            self.encbytes = packet\n\n        if self.s2k.usage in [0, 255]:\n            self.chksum = packet[:2]\n            del packet[:2]\n\n    def decrypt_keyblob(self, passphrase):\n        kb = super(ElGPriv, self).decrypt_keyblob(passphrase)", 'C08.b')
M('C08', 'literal-len-chars', PK, "        filename = self.filename.encode('utf-8')\n        _bytes += bytearray([len(filename)])\n        _bytes += filename", "        _bytes += bytearray([len(self.filename)])\n        _bytes += self.filename.encode('utf-8')", 'C08.e')
M('C08', 'rsa-pub-order', FL, "    def parse(self, packet):\n        self.n = MPI(packet)\n        self.e = MPI(packet)\n\n\nclass DSAPub", "    def parse(self, packet):\n        self.e = MPI(packet)\n        self.n = MPI(packet)\n\n\nclass DSAPub", 'C08.c')
M('C08', 'reason-remainder', SS, "        self.string = packet[:(self.header.length - 2)]\n        del packet[:(self.header.length - 2)]", "        self.string = packet[:(self.header.length - 1)]\n        del packet[:(self.header.length - 1)]", 'C08.d')
M('C08', 'uid-new-no-update', PGP, "            uid._uid.uid = uidstr\n            uid._uid.update_hlen()", "            uid._uid.uid = uidstr", 'C08.h')
M('C08', 'old-width-frozen', TY, "            llen = self._llen\n            while 0 < llen < 4 and self.length >= (1 << (8 * llen)):\n                llen *= 2\n            return llen", "            return self._llen", 'C08.i')
M('C08', 'pkesk-opaque-18', PK, "            del packet[:(self.header.length - 10)]", "            del packet[:(self.header.length - 18)]", 'C08.d')
M('C08', 'notation-skip-name-len', SS, "        nlen = self.bytes_to_int(packet[:2])\n        del packet[:2]\n        vlen", "        nlen = self.bytes_to_int(packet[:2])\n        del packet[:1]\n        vlen", 'C08.a')
M('C08', 'subpacket-update-hlen-off', ST, "        self.header.length = (len(self.__bytearray__()) - len(self.header)) + 1", "        self.header.length = (len(self.__bytearray__()) - len(self.header))", 'C08.h')
T('C08', 'twin-read-local', PK, "        self.mtime = packet[:4]\n        del packet[:4]", "        raw_time = packet[:4]\n        del packet[:4]\n        self.mtime = raw_time")
T('C08', 'twin-pend-inline', PK, "        pend = self.header.length - 6\n        self.keymaterial.parse(packet[:pend])\n        del packet[:pend]", "        self.keymaterial.parse(packet[:self.header.length - 6])\n        del packet[:self.header.length - 6]")
M('C09', 'old-tag-shift', PT, "        tag |= (self.tag) if self._lenfmt else ((self.tag << 2) | {1: 0, 2: 1, 4: 2, 0: 3}[self.llen])", "        tag |= (self.tag) if self._lenfmt else ((self.tag << 1) | {1: 0, 2: 1, 4: 2, 0: 3}[self.llen])", 'C09.8')
M('C09', 'tag-mask-1f', PT, "        _tag = (val & 0x3F) if self._lenfmt else ((val & 0x3C) >> 2)", "        _tag = (val & 0x1F) if self._lenfmt else ((val & 0x3C) >> 2)", 'C09.8')
M('C09', 'partial-del-one', TY, "                    del b[total:total + size]", "                    del b[total:total + 1]", 'C09.8')

T('C09', 'twin-tag-expr', PT, "        tag = 0x80 | (self._lenfmt << 6)\n        tag |= (self.tag) if self._lenfmt else ((self.tag << 2) | {1: 0, 2: 1, 4: 2, 0: 3}[self.llen])", "        if self._lenfmt:\n            tag = 0xC0 | self.tag\n        else:\n            tag = 0x80 | (self.tag << 2) | {1: 0, 2: 1, 4: 2, 0: 3}[self.llen]")
M('C02', 'hash-id', CO, "    SHA224 = 0x0B", "    SHA224 = 0x0C", 'C02.1')
M('C02', 'pk-id', CO, "    EdDSA = 0x16  #", "    EdDSA = 0x17  #", 'C02.1')
M('C12', 'ripemd-id', CO, "    RIPEMD160 = 0x03", "    RIPEMD160 = 0x04", 'C12.2')
